//! C02 - scanner yields exactly the positions scoring at or above the threshold.
//! (also hosts the input generator shared with C03)
use std::collections::HashSet;

use lightmotif::abc::Dna;
use lightmotif::num::U32;
use lightmotif::pwm::ScoringMatrix;
use lightmotif::scan::Scanner;
use lightmotif::seq::StripedSequence;

use crate::common::*;
use crate::json::J;
use crate::model::*;
use crate::rng::Rng;

pub const RULE: &str = "case = (DNA matrix, sequence, threshold, block size, dispatcher arm forced through the hook). Matrices in both wildcard regimes (-inf wildcard as the library's conversions give, finite/zero wildcard as ScoringMatrix::new and the Python constructor give), incl. -inf cells, small integers (exact f32 sums: thresholds exactly at a score are judged strictly), few-valued and strongly conserved motifs; L emphasises L<M, L=0, L=M and row counts within M-1 of a multiple of the block size; block sizes {1,2,3,5,8,16,31,32,33,64,255,256,257,R-1,R,R+1,R+M-1,10^6}; thresholds above the maximum, exactly at a position's score, between neighbouring scores, min_score(), min_score()-1, -1e30, -inf, 0. The scanner is iterated to exhaustion (bounded by L+2 calls) and the yielded multiset is compared with the f64 model {i in [0,L-M] : score(i) >= t} (positions within the f32 summation bound of t are don't-care). In addition every case with L >= M drives one reconfiguration history: next() calls interleaved with the public setters threshold() and block_size(), then next() until None; the verif-hooks row log (row ranges handed to the dispatched 8-bit kernel) tells which rows were scored under which threshold, and the yielded multiset must be exactly what those block scans find (block-size changes must be invisible; every position meeting the largest threshold ever set must be yielded). Non-trivial = at least one hit expected; distinct = distinct (matrix, sequence, t, block size, arm).";

pub const REQUIRED: &[&str] = &[
    "arm.dispatch[generic]", "arm.dispatch[sse2]", "arm.dispatch[avx2]", "arm.dispatch[auto]", "class.hits>0",
    "class.hits=0", "class.L<M", "class.L=0", "class.L=M", "class.blocks>1", "class.block_boundary_in_wrap_rows",
    "class.finite_wildcard", "class.threshold<=min_score", "class.threshold=-inf", "class.threshold_at_a_score",
    "class.all_positions_hit", "dispatch_forced.generic", "dispatch_forced.sse2", "dispatch_forced.avx2",
    "class.history", "class.history.threshold_lowered", "class.history.threshold_raised",
    "class.history.block_size_changed_after_blocks_scored", "class.history.hits_yielded", "class.history.finished_by_internal_iteration", "class.rows>65536", "class.hand_built_taller_matrix",
];

pub struct ScanInput {
    pub l: usize,
    pub m: usize,
    pub fam: &'static str,
    pub exact_sums: bool,
    pub rows: Vec<Vec<f32>>,
    pub seq: Vec<u8>,
    pub exact: Vec<(f64, f64)>,
    pub pssm: ScoringMatrix<Dna>,
    pub striped: StripedSequence<Dna, U32>,
    pub r_rows: usize,
    /// sum of the discretised cells of each window before saturation
    pub presat: Vec<u32>,
}

pub const SCAN_WIDTHS: [usize; 8] = [1, 2, 4, 8, 15, 16, 17, 33];

pub fn gen_scan_matrix(rng: &mut Rng, m: usize) -> (Vec<Vec<f32>>, &'static str, bool) {
    let k = 5;
    match rng.below(9) {
        0 | 1 => (gen_matrix(rng, k, m, MatKind::LogOdds), "log_odds", false),
        2 => (gen_matrix(rng, k, m, MatKind::Finite), "finite_wildcard", false),
        3 => (gen_matrix(rng, k, m, MatKind::SmallInt), "small_int", true),
        4 => (gen_matrix(rng, k, m, MatKind::FewValued), "few_valued", false),
        5 => (gen_matrix(rng, k, m, MatKind::ZeroCounts), "zero_counts", false),
        6 => {
            let mut rows = gen_matrix(rng, k, m, MatKind::LogOdds);
            for r in rows.iter_mut() {
                r[k - 1] = 0.0;
            }
            (rows, "log_odds_zero_wildcard", false)
        }
        7 => {
            // small integers with a -inf wildcard (exact sums, library-style wildcard)
            let mut rows = gen_matrix(rng, k, m, MatKind::SmallInt);
            for r in rows.iter_mut() {
                r[k - 1] = f32::NEG_INFINITY;
            }
            (rows, "small_int_neg_inf_wildcard", true)
        }
        _ => {
            let rows = (0..m)
                .map(|_| {
                    let mut r = vec![0f32; k];
                    let dom = rng.below(k - 1);
                    for j in 0..k - 1 {
                        r[j] = if j == dom { rng.f32_in(1.0, 2.0) } else { rng.f32_in(-6.0, -2.0) };
                    }
                    r[k - 1] = if rng.chance(0.5) { f32::NEG_INFINITY } else { 0.0 };
                    r
                })
                .collect();
            (rows, "conserved", false)
        }
    }
}

pub fn make_scan_input(rng: &mut Rng, l: usize, m: usize, near_ties: bool) -> ScanInput {
    let (rows, fam, exact_sums) = if near_ties {
        if rng.chance(0.5) {
            (gen_matrix(rng, 5, m, MatKind::FewValued), "few_valued", false)
        } else {
            // random fractional entries, wide: rounding up reorders near-equal positions
            let rows = (0..m)
                .map(|_| {
                    let mut r: Vec<f32> = (0..5).map(|_| rng.f32_in(-1.5, 1.5)).collect();
                    r[4] = f32::NEG_INFINITY;
                    r
                })
                .collect();
            (rows, "fractional", false)
        }
    } else {
        gen_scan_matrix(rng, m)
    };
    let sk = *rng.pick(&SEQ_KINDS);
    let mut seq = gen_seq(rng, 5, l, sk);
    // plant the consensus a few times so that high thresholds have hits
    if l >= m && rng.chance(0.7) {
        let cons: Vec<u8> = rows
            .iter()
            .map(|r| {
                let mut b = 0;
                for j in 1..4 {
                    if r[j] > r[b] {
                        b = j;
                    }
                }
                b as u8
            })
            .collect();
        for _ in 0..rng.range(1, 3) {
            let p = rng.below(l - m + 1);
            seq[p..p + m].copy_from_slice(&cons);
            if rng.chance(0.3) {
                seq[p + rng.below(m)] = rng.below(4) as u8;
            }
        }
    }
    let exact = exact_scores(&rows, &seq);
    let pssm = scoring::<Dna>(&rows);
    let enc = encoded::<Dna>(&seq);
    // one input in eight is striped by hand over a matrix taller than the sequence needs
    // (StripedSequence::new: the stripe height is the matrix row count)
    let mut striped: StripedSequence<Dna, U32> = if rng.chance(0.125) && l > 0 && l < 100_000 { stripe_tall(&seq, rng.range(1, 9)) } else { stripe_generic(&enc) };
    // the sequence may have served other motifs before: look-ahead rows built in one or two
    // earlier, shorter configurations, or more of them than this motif needs
    match rng.below(4) {
        0 if m >= 3 => {
            striped.configure_wrap(rng.range(1, m - 2));
            if m >= 5 && rng.chance(0.5) {
                striped.configure_wrap(rng.range((m - 1) / 2, m - 2));
            }
        }
        1 => striped.configure_wrap(m - 1 + rng.range(1, 20)),
        _ => {}
    }
    striped.configure(&pssm);
    let r_rows = striped.matrix().rows() - striped.wrap();
    let dm = pssm.to_discrete();
    let presat = (0..exact.len())
        .map(|i| (0..m).map(|j| dm.matrix()[j][seq[i + j] as usize] as u32).sum())
        .collect();
    ScanInput { l, m, fam, exact_sums, rows, seq, exact, pssm, striped, r_rows, presat }
}

impl ScanInput {
    pub fn tol(&self, i: usize) -> f64 {
        if self.exact_sums {
            0.0
        } else {
            tol(self.m, self.exact[i].1)
        }
    }
    pub fn witness(&self, arm: Arm, t: f32, b: usize) -> J {
        J::obj()
            .set("arm", J::s(arm.name()))
            .set("L", J::u(self.l))
            .set("M", J::u(self.m))
            .set("sequence_rows", J::u(self.r_rows))
            .set("matrix_family", J::s(self.fam))
            .set("threshold", J::f(t as f64))
            .set("block_size", J::u(b))
            .set("matrix", J::Arr(self.rows.iter().map(|r| J::Arr(r.iter().map(|&x| J::f(x as f64)).collect())).collect()))
            .set("sequence", J::s(fmt_seq_short::<Dna>(&self.seq)))
    }
    pub fn digest(&self, arm: Arm, t: f32, b: usize) -> u64 {
        let mut d = Digest::new();
        d.bytes(&self.seq).bytes(arm.name().as_bytes()).u(t.to_bits() as u64).u(b as u64);
        for r in &self.rows {
            d.f32s(r);
        }
        d.get()
    }
}

pub fn pick_lengths(rng: &mut Rng, m: usize, b_hint: usize) -> usize {
    match rng.below(12) {
        0 => 0,
        1 => rng.below(m.max(1)),
        2 => m,
        3 => m + 1,
        4 => rng.range(m, m + 70),
        5 | 6 => {
            // row count within M-1 of a multiple of the block size
            let mult = b_hint.max(1) * rng.range(1, 4);
            let r = (mult + rng.below(m.max(1))).saturating_sub(rng.below(m.max(1)));
            (r.max(1) * 32).saturating_sub(rng.below(32)).min(6000)
        }
        7 => *rng.pick(&[63usize, 64, 65, 991, 992, 993, 1023, 1024, 1025, 1055, 1056, 1057, 2047, 2048, 2049]),
        _ => rng.range(m, 3000),
    }
}

pub fn pick_block(rng: &mut Rng, r_rows: usize, m: usize) -> usize {
    let fixed = [1usize, 2, 3, 5, 8, 16, 31, 32, 33, 64, 255, 256, 257, 1_000_000];
    match rng.below(4) {
        0 => *rng.pick(&[r_rows.saturating_sub(1).max(1), r_rows.max(1), r_rows + 1, r_rows + m.saturating_sub(1).max(1)]),
        _ => *rng.pick(&fixed),
    }
}

/// one or two positions of the motif made flat (all regular symbols equal: the discretised row is
/// all zeros), never the last position only
pub fn flatten_some_rows(rng: &mut Rng, rows: &mut [Vec<f32>]) -> bool {
    let m = rows.len();
    if m < 3 {
        return false;
    }
    for _ in 0..rng.range(1, 2) {
        let i = rng.below(m - 1);
        let v = *rng.pick(&[0.0f32, -0.25, 1.5]);
        for j in 0..4 {
            rows[i][j] = v;
        }
    }
    true
}

pub fn pick_threshold(rng: &mut Rng, inp: &ScanInput, rep: &mut Report) -> f32 {
    let finite: Vec<f64> = inp.exact.iter().map(|e| e.0).filter(|x| x.is_finite()).collect();
    let mn = inp.pssm.min_score();
    let mx = inp.pssm.max_score();
    match rng.below(11) {
        0 => {
            if mx.is_finite() {
                mx + 1.0
            } else {
                1.0e30
            }
        }
        1 | 2 if !finite.is_empty() => {
            rep.cover("class.threshold_at_a_score");
            *rng.pick(&finite) as f32
        }
        3 if finite.len() >= 2 => {
            let mut v = finite.clone();
            v.sort_by(|a, b| a.partial_cmp(b).unwrap());
            v.dedup();
            let i = rng.below(v.len().max(2) - 1);
            ((v[i] + v[(i + 1).min(v.len() - 1)]) / 2.0) as f32
        }
        4 => {
            rep.cover("class.threshold<=min_score");
            if mn.is_finite() {
                mn
            } else {
                -1.0e30
            }
        }
        5 => {
            rep.cover("class.threshold<=min_score");
            if mn.is_finite() {
                mn - 1.0
            } else {
                -1.0e30
            }
        }
        6 => {
            rep.cover("class.threshold<=min_score");
            -1.0e30
        }
        7 => {
            rep.cover("class.threshold=-inf");
            f32::NEG_INFINITY
        }
        8 => 0.0,
        _ => {
            // a high quantile of the scores: few hits
            if finite.is_empty() {
                0.0
            } else {
                let mut v = finite.clone();
                v.sort_by(|a, b| a.partial_cmp(b).unwrap());
                v[(v.len() - 1) - rng.below((v.len() / 20).max(1))] as f32
            }
        }
    }
}

pub fn generic_family(arm: Arm) -> bool {
    matches!(arm, Arm::DispGeneric | Arm::DispSse2)
}

fn scan_case(case: u64, rng: &mut Rng, rep: &mut Report) {
    if case == 0 {
        // more than 65536 striped rows scanned in one block (and in blocks of 65536 / 65537 rows)
        let m = rng.range(4, 8);
        let l = 65536 * 32 + 32 * rng.range(300, 2500) + rng.below(32);
        let inp = make_scan_input(rng, l, m, false);
        rep.cover("class.rows>65536");
        let mut v: Vec<f64> = inp.exact.iter().map(|e| e.0).filter(|x| x.is_finite()).collect();
        v.sort_by(|a, b| b.partial_cmp(a).unwrap());
        for (i, &b) in [usize::MAX, 65537, 65536].iter().enumerate() {
            let t = if v.len() > 6000 { (v[3000 + 500 * i] - 1e-3) as f32 } else { 0.0 };
            one_scan(case, rep, &inp, [Arm::DispAuto, Arm::DispAvx2, Arm::DispAuto][i], t, b);
        }
        return;
    }
    let m = *rng.pick(&SCAN_WIDTHS);
    let b_hint = *rng.pick(&[1usize, 2, 3, 5, 8, 16, 31, 32, 33, 64]);
    let l = pick_lengths(rng, m, b_hint);
    let inp = make_scan_input(rng, l, m, false);
    let n_runs = 3;
    for run_i in 0..n_runs {
        let arm = DISP_ARMS[((case as usize) + run_i) % 4];
        let b = if run_i == 0 && rng.chance(0.5) { b_hint } else { pick_block(rng, inp.r_rows, m) };
        let t = pick_threshold(rng, &inp, rep);
        one_scan(case, rep, &inp, arm, t, b);
    }
    // reconfiguration history: setters called between next() calls (see scanhist.rs)
    if inp.l >= inp.m {
        let arm = DISP_ARMS[((case as usize) + 3) % 4];
        let finish = if rng.chance(0.4) { crate::scanhist::Finish::ForEach } else { crate::scanhist::Finish::Exhaust };
        crate::scanhist::history_case(case, rng, rep, &inp, arm, finish, "c02", None);
    }
}

pub fn one_scan(case: u64, rep: &mut Report, inp: &ScanInput, arm: Arm, t: f32, b: usize) {
    let l = inp.l;
    let m = inp.m;
    rep.eval();
    rep.cover(&format!("arm.{}", arm.name()));
    if l < m {
        rep.cover("class.L<M");
    }
    if l == 0 {
        rep.cover("class.L=0");
    }
    if l == m {
        rep.cover("class.L=M");
    }
    if inp.r_rows > b {
        rep.cover("class.blocks>1");
    }
    if inp.r_rows > (l + 31) / 32 {
        rep.cover("class.hand_built_taller_matrix");
    }
    if inp.rows.iter().any(|r| r[4].is_finite()) {
        rep.cover("class.finite_wildcard");
    }
    // a multiple of the block size falls inside the look-ahead rows
    let total_rows = inp.striped.matrix().rows();
    if b <= total_rows && (inp.r_rows..total_rows).any(|r| r % b == 0) {
        rep.cover("class.block_boundary_in_wrap_rows");
    }
    let td = t as f64;
    let nvalid = inp.exact.len();
    let expected_definite: Vec<usize> = (0..nvalid).filter(|&i| inp.exact[i].0 >= td + inp.tol(i)).collect();
    if expected_definite.is_empty() {
        rep.cover("class.hits=0");
    } else {
        rep.cover("class.hits>0");
        rep.nontrivial(inp.digest(arm, t, b));
        if expected_definite.len() == nvalid {
            rep.cover("class.all_positions_hit");
        }
    }
    // drive the scanner to exhaustion
    let limit = l + 2;
    let res = guard(|| {
        force(arm);
        let mut sc = Scanner::new(&inp.pssm, &inp.striped);
        unforce();
        sc.threshold(t);
        sc.block_size(b);
        let mut hits: Vec<(usize, f32)> = Vec::new();
        let mut overrun = false;
        loop {
            match sc.next() {
                None => break,
                Some(h) => {
                    hits.push((h.position(), h.score()));
                    if hits.len() > limit {
                        overrun = true;
                        break;
                    }
                }
            }
        }
        (hits, overrun)
    });
    unforce();
    let wit = || inp.witness(arm, t, b);
    let (hits, overrun) = match res {
        Err(p) => {
            // (the kernel also sums the cells of the padding positions: the panic needs no valid window above 255)
            let wraps = generic_family(arm) && p.contains("attempt to add with overflow") && panic_site(&p).ends_with("src/pli/mod.rs");
            let kind = if wraps { "c02.generic_u8_wraps".to_string() } else { format!("c02.panic:{}", panic_site(&p)) };
            rep.violate(&kind, case, format!("panic while scanning: {}", p), wit());
            return;
        }
        Ok(x) => x,
    };
    if overrun {
        rep.violate("c02.too_many_hits", case, format!("more than L+2 = {} hits yielded: some position is yielded repeatedly or forever", limit), wit());
        return;
    }
    let mut seen: HashSet<usize> = HashSet::new();
    for &(p, s) in hits.iter() {
        if p >= nvalid {
            rep.violate(
                "c02.out_of_range",
                case,
                format!("position {} yielded (score {}), the last valid position is {:?}", p, s, nvalid.checked_sub(1)),
                wit(),
            );
            return;
        }
        if !seen.insert(p) {
            rep.violate("c02.duplicate", case, format!("position {} yielded twice", p), wit());
            return;
        }
        let (ex, _) = inp.exact[p];
        let tl = inp.tol(p);
        if ex < td - tl {
            rep.violate(
                "c02.below_threshold",
                case,
                format!("position {} yielded with score {} (exact {}), below the threshold {}", p, s, ex, t),
                wit(),
            );
            return;
        }
        let score_ok = if ex == f64::NEG_INFINITY { s == f32::NEG_INFINITY } else { ((s as f64) - ex).abs() <= tl.max(1e-30) || (inp.exact_sums && s as f64 == ex) };
        if !score_ok {
            rep.violate("c02.wrong_score", case, format!("position {} yielded with score {}, exact score {}", p, s, ex), wit());
            return;
        }
    }
    for &i in expected_definite.iter() {
        if !seen.contains(&i) {
            let wraps = generic_family(arm) && inp.presat[i] > 255;
            let kind = if wraps { "c02.generic_u8_wraps" } else { "c02.missed_hit" };
            rep.violate(
                kind,
                case,
                format!(
                    "position {} scores {} >= threshold {} but was not yielded ({} hits yielded, {} expected; pre-saturation byte sum of the window {})",
                    i, inp.exact[i].0, t, hits.len(), expected_definite.len(), inp.presat[i]
                ),
                wit().set("missed_position", J::u(i)),
            );
            return;
        }
    }
    rep.sample(|| {
        wit()
            .set("case", J::UInt(case))
            .set("hits_yielded", J::u(hits.len()))
            .set("first_hits", J::Arr(hits.iter().take(5).map(|h| J::Arr(vec![J::u(h.0), J::f(h.1 as f64)])).collect()))
    });
}

pub fn run(cfg: &Config) -> Report {
    // deterministic part: the witnesses of the panics repaired in /repo (kept as regression inputs)
    let n = cfg.n(10_000, 400_000) as u64;
    run_cases(cfg, n, |case, rng, rep| scan_case(case, rng, rep))
}
