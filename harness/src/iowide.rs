//! Motif files over a USER-DEFINED alphabet (the readers are generic over `Alphabet`, whose traits are
//! public): 40 symbols - `A`..`Z`, the case-sensitive `a`..`m`, wildcard `*` - so that symbol indices
//! exceed every built-in alphabet (and 32), and upper / lower case are different symbols.
//! Two sub-checks: `roundtrip` (C14) and `never_panics` (C15).
use std::io::{BufReader, Cursor};

use lightmotif::abc::{Alphabet, Symbol};
use lightmotif::err::InvalidSymbol;

use crate::common::*;
use crate::iogen::{diff_records, Format, Rec};
use crate::json::J;
use crate::rng::Rng;

const LETTERS: &[u8; 40] = b"ABCDEFGHIJKLMNOPQRSTUVWXYZabcdefghijklm*";

#[derive(Clone, Copy, Debug, PartialEq, Eq)]
pub struct W(pub u8);

impl Default for W {
    fn default() -> Self {
        W(39)
    }
}

impl Symbol for W {
    fn as_index(&self) -> usize {
        self.0 as usize
    }
    fn as_ascii(&self) -> u8 {
        LETTERS[self.0 as usize]
    }
    fn from_ascii(c: u8) -> Result<Self, InvalidSymbol> {
        match LETTERS.iter().position(|&x| x == c) {
            Some(i) => Ok(W(i as u8)),
            None => Err(InvalidSymbol(c as char)),
        }
    }
}

static WS: [W; 40] = {
    let mut a = [W(0); 40];
    let mut i = 0;
    while i < 40 {
        a[i] = W(i as u8);
        i += 1;
    }
    a
};

#[derive(Clone, Copy, Debug, Default, PartialEq, Eq)]
pub struct Wide40;

impl Alphabet for Wide40 {
    type Symbol = W;
    type K = lightmotif::num::U40;
    fn symbols() -> &'static [W] {
        &WS
    }
    fn as_str() -> &'static str {
        "ABCDEFGHIJKLMNOPQRSTUVWXYZabcdefghijklm*"
    }
}

const K: usize = 40;
const WIDE_FORMATS: [Format; 3] = [Format::Jaspar16, Format::Transfac, Format::Uniprobe];

/// a small file of `n` records; every record names a random subset of the symbols (always one of
/// index >= 32 and one lower-case letter), in random order
fn gen_wide(rng: &mut Rng, format: Format, n: usize) -> (Vec<u8>, Vec<Rec>) {
    let mut text = String::new();
    let mut recs = Vec::new();
    for r in 0..n {
        let w = rng.range(1, 6);
        let id = format!("W{}x{}", r, rng.below(1000));
        let mut cols: Vec<usize> = vec![32 + rng.below(7), 26 + rng.below(6)];
        for _ in 0..rng.range(1, 8) {
            let c = rng.below(K - 1);
            if !cols.contains(&c) {
                cols.push(c);
            }
        }
        cols.sort();
        cols.dedup();
        rng.shuffle(&mut cols);
        let mut cells = vec![vec![0f64; K]; w];
        match format {
            Format::Jaspar16 => {
                text.push_str(&format!(">{}\n", id));
                for &c in &cols {
                    text.push(LETTERS[c] as char);
                    text.push_str(" [");
                    for i in 0..w {
                        let v = rng.below(500) as u32;
                        cells[i][c] = v as f64;
                        text.push_str(&format!(" {}", v));
                    }
                    text.push_str(" ]\n");
                }
                recs.push(Rec { id: Some(id), accession: None, name: None, description: None, cells });
            }
            Format::Transfac => {
                text.push_str(&format!("AC  {}\nXX\n", id));
                text.push_str("P0");
                for &c in &cols {
                    text.push_str(&format!("      {}", LETTERS[c] as char));
                }
                text.push('\n');
                for i in 0..w {
                    text.push_str(&format!("{:02}", i + 1));
                    for &c in &cols {
                        let v = rng.below(500) as u32;
                        cells[i][c] = v as f64;
                        text.push_str(&format!("      {}", v));
                    }
                    text.push('\n');
                }
                text.push_str("XX\n//\n");
                recs.push(Rec { id: None, accession: Some(id), name: None, description: None, cells });
            }
            _ => {
                text.push_str(&format!("{}\n", id));
                // every position: the named symbols share the mass in quarters / halves
                let shares: Vec<Vec<f64>> = (0..w)
                    .map(|_| {
                        let mut v = vec![0f64; cols.len()];
                        for _ in 0..4 {
                            v[rng.below(cols.len())] += 0.25;
                        }
                        v
                    })
                    .collect();
                for (ci, &c) in cols.iter().enumerate() {
                    text.push(LETTERS[c] as char);
                    text.push(':');
                    for i in 0..w {
                        cells[i][c] = shares[i][ci];
                        text.push_str(&format!("\t{}", shares[i][ci]));
                    }
                    text.push('\n');
                }
                if r + 1 < n {
                    text.push('\n');
                }
                recs.push(Rec { id: Some(id), accession: None, name: None, description: None, cells });
            }
        }
    }
    (text.into_bytes(), recs)
}

enum Got {
    Records(Vec<Rec>),
    Error(usize, String),
}

fn read_wide<B: std::io::BufRead>(format: Format, b: B, limit: usize) -> Got {
    let mut out = Vec::new();
    macro_rules! drive {
        ($it:expr, $conv:expr) => {{
            for item in $it {
                match item {
                    Ok(r) => {
                        out.push($conv(r));
                        if out.len() > limit {
                            return Got::Error(out.len(), "more records than input bytes".into());
                        }
                    }
                    Err(e) => return Got::Error(out.len(), format!("{}", e)),
                }
            }
            Got::Records(out)
        }};
    }
    match format {
        Format::Jaspar16 => drive!(lightmotif_io::jaspar16::read::<_, Wide40>(b), |r: lightmotif_io::jaspar16::Record<Wide40>| Rec {
            id: Some(r.id().to_string()),
            accession: None,
            name: None,
            description: r.description().map(String::from),
            cells: (0..r.matrix().matrix().rows()).map(|i| r.matrix().matrix()[i].iter().map(|&x| x as f64).collect()).collect(),
        }),
        Format::Transfac => drive!(lightmotif_io::transfac::read::<_, Wide40>(b), |r: lightmotif_io::transfac::Record<Wide40>| Rec {
            id: r.id().map(String::from),
            accession: r.accession().map(String::from),
            name: r.name().map(String::from),
            description: r.description().map(String::from),
            cells: match r.data() {
                Some(d) => (0..d.rows()).map(|i| d[i].iter().map(|&x| x as f64).collect()).collect(),
                None => Vec::new(),
            },
        }),
        _ => drive!(lightmotif_io::uniprobe::read::<_, Wide40>(b), |r: lightmotif_io::uniprobe::Record<Wide40>| Rec {
            id: Some(r.id().to_string()),
            accession: None,
            name: None,
            description: None,
            cells: (0..r.matrix().matrix().rows()).map(|i| r.matrix().matrix()[i].iter().map(|&x| x as f64).collect()).collect(),
        }),
    }
}

/// C14 sub-check: files over the user-defined alphabet load completely and exactly, whatever the
/// buffer capacity of the stream
pub fn roundtrip(case: u64, rng: &mut Rng, rep: &mut Report) {
    for &format in WIDE_FORMATS.iter() {
        let n = rng.range(1, 6);
        let (text, expect) = gen_wide(rng, format, n);
        rep.eval();
        rep.cover("alphabet.user_defined_40_symbols");
        let wit = |sched: &str| {
            J::obj()
                .set("alphabet", J::s("user-defined, 40 symbols (A-Z, a-m, wildcard *)"))
                .set("format", J::s(format.name()))
                .set("schedule", J::s(sched))
                .set("file", J::s(String::from_utf8_lossy(&text[..text.len().min(1500)]).to_string()))
        };
        for cap in [0usize, 1, 7, 64, 4096] {
            let sched = if cap == 0 { "Cursor".to_string() } else { format!("BufReader::with_capacity({})", cap) };
            let got = guard(|| if cap == 0 { read_wide(format, Cursor::new(&text[..]), text.len() + 2) } else { read_wide(format, BufReader::with_capacity(cap, Cursor::new(&text[..])), text.len() + 2) });
            match got {
                Err(p) => {
                    rep.violate(&format!("c14.panic:{}", panic_site(&p)), case, format!("panic while reading a well-formed file over a user-defined alphabet: {}", p), wit(&sched));
                    return;
                }
                Ok(Got::Error(nrec, e)) => {
                    rep.violate("c14.error_on_wellformed", case, format!("reader error after {} of {} records over a user-defined alphabet: {}", nrec, expect.len(), e), wit(&sched));
                    return;
                }
                Ok(Got::Records(recs)) => {
                    if let Some(d) = diff_records(&recs, &expect, format == Format::Uniprobe) {
                        rep.violate("c14.mismatch", case, format!("user-defined alphabet: {}", d), wit(&sched));
                        return;
                    }
                }
            }
        }
    }
}

/// C15 sub-check: prefixes and single-byte edits of such files never make the readers panic
pub fn never_panics(case: u64, rng: &mut Rng, rep: &mut Report) {
    for &format in WIDE_FORMATS.iter() {
        let nrec = rng.range(1, 3);
        let (text, _) = gen_wide(rng, format, nrec);
        let mut inputs: Vec<Vec<u8>> = vec![text.clone()];
        for cut in 0..text.len() {
            if cut % 3 == (case % 3) as usize {
                inputs.push(text[..cut].to_vec());
            }
        }
        for _ in 0..300 {
            let mut t = text.clone();
            let p = rng.below(t.len());
            match rng.below(3) {
                0 => t[p] = *rng.pick(b"ABZamn*>[]: \t\n0123456789./XP\x00\x80\xff"),
                1 => {
                    t.remove(p);
                }
                _ => t.insert(p, *rng.pick(b"Aam*>[]: \t\n09./")),
            }
            inputs.push(t);
        }
        for inp in inputs {
            rep.eval();
            rep.cover("reader.user_defined_40_symbols");
            let got = guard(|| match read_wide(format, Cursor::new(&inp[..]), inp.len() + 2) {
                Got::Records(r) => r.len(),
                Got::Error(n, _) => n,
            });
            if let Err(p) = got {
                rep.violate(
                    &format!("c15.panic:{}", panic_site(&p)),
                    case,
                    format!("{} reader over a user-defined 40-symbol alphabet panicked: {}", format.name(), p),
                    J::obj().set("format", J::s(format.name())).set("input", J::s(String::from_utf8_lossy(&inp[..inp.len().min(1500)]).to_string())),
                );
                return;
            }
        }
    }
}
