//! C08 - 8-bit discretised scores never under-estimate the real score.
use lightmotif::abc::{Alphabet, Dna, Protein};
use lightmotif::num::U32;
use lightmotif::pli::{Pipeline, Score};
use lightmotif::pwm::{DiscreteMatrix, ScoringMatrix};
use lightmotif::scores::StripedScores;
use lightmotif::seq::StripedSequence;

use crate::common::*;
use crate::json::J;
use crate::model::*;
use crate::rng::Rng;

pub const RULE: &str = "case = (scoring matrix with finite non-wildcard entries, sequence). Matrices: log-odds (-inf wildcard), arbitrary finite incl. a finite wildcard column above/below the row range, small integers, few-valued, flat rows, zero wildcard column; widths 1..40 biased to widths whose rounded-up cells sum above 255. Sequences contain the consensus word (planted several times, also next to wildcards), the anti-consensus word, wildcards and random background. For EVERY valid position and every arm (avx2 saturating kernel, generic, sse2, dispatch forced to each arm and unforced, DiscreteMatrix::score_position) the u8 score must be >= dm.scale(real score of that position) and >= dm.scale(t) for thresholds t <= real score. One case in eight drives scanner reconfiguration histories on the saturating arms (threshold() / block_size() called between next() calls, then next() until None): with the verif-hooks row log every position found by a block scored under the threshold then in effect must be yielded (a stale byte threshold loses hits). Non-trivial = at least one position whose pre-saturation byte sum exceeds 255; distinct = distinct (matrix, sequence).";

pub const REQUIRED: &[&str] = &[
    "arm.avx2", "arm.generic", "arm.sse2", "arm.dispatch[generic]", "arm.dispatch[sse2]", "arm.dispatch[avx2]",
    "arm.dispatch[auto]", "arm.score_position", "arm.generic.protein", "class.presaturation_sum>255",
    "class.wildcard_in_window", "class.L=M_or_M+1", "scanner.own_score_threshold", "class.finite_wildcard_above_row_min", "class.consensus_planted", "class.flat_matrix",
    "dispatch_forced.generic", "dispatch_forced.sse2", "dispatch_forced.avx2",
    "class.history", "class.history.threshold_lowered", "class.history.threshold_raised", "class.history.hits_yielded", "class.history.max_on_near_ties",
];

fn gen_c08_matrix(rng: &mut Rng, k: usize, m: usize, fam: usize) -> (Vec<Vec<f32>>, &'static str) {
    match fam {
        0 => (gen_matrix(rng, k, m, MatKind::LogOdds), "log_odds"),
        1 => (gen_matrix(rng, k, m, MatKind::Finite), "finite_with_finite_wildcard"),
        2 => (gen_matrix(rng, k, m, MatKind::SmallInt), "small_int"),
        3 => (gen_matrix(rng, k, m, MatKind::FewValued), "few_valued"),
        4 => {
            // neutral wildcard (0.0) above the row minimum
            let mut rows = gen_matrix(rng, k, m, MatKind::LogOdds);
            for r in rows.iter_mut() {
                r[k - 1] = 0.0;
            }
            (rows, "log_odds_zero_wildcard")
        }
        5 => {
            // flat: every non-wildcard entry of a row is the same (factor = 0)
            let rows = (0..m)
                .map(|_| {
                    let v = rng.f32_in(-2.0, 2.0);
                    let mut r = vec![v; k];
                    r[k - 1] = f32::NEG_INFINITY;
                    r
                })
                .collect();
            (rows, "flat")
        }
        _ => {
            // strongly conserved motif: one dominant symbol per row, many rows
            let rows = (0..m)
                .map(|_| {
                    let mut r = vec![0f32; k];
                    let dom = rng.below(k - 1);
                    for j in 0..k - 1 {
                        r[j] = if j == dom { rng.f32_in(1.0, 2.0) } else { rng.f32_in(-6.0, -2.0) };
                    }
                    r[k - 1] = if rng.chance(0.5) { f32::NEG_INFINITY } else { rng.f32_in(-8.0, 3.0) };
                    r
                })
                .collect();
            (rows, "conserved")
        }
    }
}

fn consensus(rows: &[Vec<f32>], k: usize, best: bool) -> Vec<u8> {
    rows.iter()
        .map(|r| {
            let mut bi = 0;
            for j in 1..k - 1 {
                if (best && r[j] > r[bi]) || (!best && r[j] < r[bi]) {
                    bi = j;
                }
            }
            bi as u8
        })
        .collect()
}

fn gen_c08_seq(rng: &mut Rng, rep: &mut Report, rows: &[Vec<f32>], k: usize, l: usize) -> Vec<u8> {
    let m = rows.len();
    let sk = *rng.pick(&[SeqKind::Uniform, SeqKind::Wild5, SeqKind::Skewed]);
    let mut s = gen_seq(rng, k, l, sk);
    let cons = consensus(rows, k, true);
    let anti = consensus(rows, k, false);
    if l >= m {
        for t in 0..rng.range(1, 4) {
            let p = rng.below(l - m + 1);
            let w = if t == 2 { &anti } else { &cons };
            s[p..p + m].copy_from_slice(w);
            if t == 1 && m > 2 {
                // consensus with one wildcard inside
                s[p + rng.below(m)] = (k - 1) as u8;
            }
        }
        // near-consensus: consensus with one or two random substitutions
        let p = rng.below(l - m + 1);
        s[p..p + m].copy_from_slice(&cons);
        for _ in 0..rng.range(1, 2) {
            s[p + rng.below(m)] = rng.below(k - 1) as u8;
        }
        rep.cover("class.consensus_planted");
    }
    s
}

fn verdict(
    case: u64,
    rep: &mut Report,
    arm: &str,
    generic_family: bool,
    dm_rows: &[Vec<u8>],
    seq: &[u8],
    pos: usize,
    got: u8,
    need: u8,
    what: &str,
    wit: &dyn Fn() -> J,
) {
    if got >= need {
        return;
    }
    let m = dm_rows.len();
    let sum: u32 = (0..m).map(|j| dm_rows[j][seq[pos + j] as usize] as u32).sum();
    let kind = if generic_family && sum > 255 && got as u32 == sum % 256 {
        "c08.generic_u8_wraps"
    } else {
        "c08.underestimate"
    };
    rep.violate(
        kind,
        case,
        format!(
            "{}: position {}: 8-bit score {} < {} = {} (sum of the discretised cells before saturation: {})",
            arm, pos, got, need, what, sum
        ),
        wit().set("arm", J::s(arm)).set("position", J::u(pos)).set("presaturation_sum", J::UInt(sum as u64)),
    );
}

fn run_dna(case: u64, rng: &mut Rng, rep: &mut Report) {
    let k = 5;
    let m = if rng.chance(0.6) { rng.range(8, 40) } else { rng.range(1, 12) };
    let fam = rng.below(7);
    let (mut rows, fam_name) = gen_c08_matrix(rng, k, m, fam);
    if m >= 3 && rng.chance(0.15) {
        // a spacer / uninformative position: all regular symbols score the same there (the row
        // discretises to all zeros), wildcard not above them; never the last row only
        for _ in 0..rng.range(1, 2) {
            let i = rng.below(m - 1);
            let v = *rng.pick(&[0.0f32, -0.5, 1.25]);
            for j in 0..4 {
                rows[i][j] = v;
            }
            rows[i][4] = if rng.chance(0.5) { f32::NEG_INFINITY } else { v };
        }
        rep.cover("class.flat_position_inside_motif");
    }
    let l = match rng.below(5) {
        4 => {
            rep.cover("class.L=M_or_M+1");
            m + rng.below(2)
        }
        0 => rng.range(m, m + 40),
        1 => rng.range(m, 400),
        _ => rng.range(m, 1500),
    };
    let seq = gen_c08_seq(rng, rep, &rows, k, l);
    rep.eval();
    if fam_name == "flat" {
        rep.cover("class.flat_matrix");
    }
    if rows.iter().any(|r| r[k - 1].is_finite() && r[..k - 1].iter().any(|&x| x < r[k - 1])) {
        rep.cover("class.finite_wildcard_above_row_min");
    }
    let pssm: ScoringMatrix<Dna> = scoring::<Dna>(&rows);
    let enc = encoded::<Dna>(&seq);
    let mut striped: StripedSequence<Dna, U32> = stripe_generic(&enc);
    striped.configure(&pssm);
    let r_rows = striped.matrix().rows() - striped.wrap();
    let nvalid = l - m + 1;
    let wit = || {
        J::obj()
            .set("alphabet", J::s("dna"))
            .set("family", J::s(fam_name))
            .set("L", J::u(l))
            .set("M", J::u(m))
            .set("matrix", J::Arr(rows.iter().map(|r| J::Arr(r.iter().map(|&x| J::f(x as f64)).collect())).collect()))
            .set("sequence", J::s(fmt_seq_short::<Dna>(&seq)))
    };
    let dm: DiscreteMatrix<Dna> = match guard(|| pssm.to_discrete()) {
        Ok(d) => d,
        Err(p) => {
            rep.violate(&format!("c08.panic:{}", panic_site(&p)), case, format!("panic in to_discrete: {}", p), wit());
            return;
        }
    };
    let dm_rows: Vec<Vec<u8>> = (0..m).map(|i| dm.matrix()[i].to_vec()).collect();
    // real scores through the library and the byte images
    let real: Vec<f32> = (0..nvalid).map(|i| pssm.score_position(&striped, i)).collect();
    let need: Vec<u8> = real.iter().map(|&s| dm.scale(s)).collect();
    let wild = (k - 1) as u8;
    let mut any_sat = false;
    for i in 0..nvalid {
        let sum: u32 = (0..m).map(|j| dm_rows[j][seq[i + j] as usize] as u32).sum();
        if sum > 255 {
            any_sat = true;
        }
    }
    if any_sat {
        rep.cover("class.presaturation_sum>255");
        let mut d = Digest::new();
        d.bytes(&seq);
        for r in &rows {
            d.f32s(r);
        }
        rep.nontrivial(d.get());
    }
    if seq.iter().any(|&s| s == wild) {
        rep.cover("class.wildcard_in_window");
    }

    // u8 scoring through every arm
    let arms: [(&str, Arm, bool); 7] = [
        ("avx2", Arm::Avx2, false),
        ("generic", Arm::Generic, true),
        ("sse2", Arm::Sse2, true),
        ("dispatch[generic]", Arm::DispGeneric, true),
        ("dispatch[sse2]", Arm::DispSse2, true),
        ("dispatch[avx2]", Arm::DispAvx2, false),
        ("dispatch[auto]", Arm::DispAuto, false),
    ];
    for (name, arm, generic_family) in arms.iter() {
        let mut out = StripedScores::<u8, U32>::empty();
        let res = guard(|| match arm {
            Arm::Avx2 => Pipeline::<Dna, _>::avx2().unwrap().score_into(&dm, &striped, &mut out),
            Arm::Generic => Pipeline::<Dna, _>::generic().score_into(&dm, &striped, &mut out),
            Arm::Sse2 => Pipeline::<Dna, _>::sse2().unwrap().score_into(&dm, &striped, &mut out),
            a => {
                let p = dispatch_pipeline::<Dna>(*a);
                unforce();
                p.score_into(&dm, &striped, &mut out)
            }
        });
        unforce();
        rep.cover(&format!("arm.{}", name));
        if let Err(p) = res {
            // the dev-profile build turns the wrapping add of the generic kernel into a panic
            let kind = if *generic_family && p.contains("attempt to add with overflow") && panic_site(&p).ends_with("src/pli/mod.rs") {
                "c08.generic_u8_wraps".to_string()
            } else {
                format!("c08.panic:{}", panic_site(&p))
            };
            rep.violate(&kind, case, format!("{}: panic while scoring in 8 bits: {}", name, p), wit().set("arm", J::s(*name)));
            continue;
        }
        if out.matrix().rows() != r_rows {
            rep.violate("c08.shape", case, format!("{}: u8 score matrix has {} rows, expected {}", name, out.matrix().rows(), r_rows), wit());
            continue;
        }
        for i in 0..nvalid {
            let got = out.matrix()[i % r_rows][i / r_rows];
            verdict(case, rep, name, *generic_family, &dm_rows, &seq, i, got, need[i], &format!("scale(real score {})", real[i]), &wit);
            if i % 7 == 0 && real[i].is_finite() {
                let t = real[i] - rng.f32_in(0.0, 2.0);
                verdict(case, rep, name, *generic_family, &dm_rows, &seq, i, got, dm.scale(t), &format!("scale(threshold {} <= real score {})", t, real[i]), &wit);
            }
        }
    }
    // consequence clause: the 8-bit pre-filter may add candidates but never loses a hit. On the arms
    // with the saturating kernel, a scanner whose threshold is a position's own real score (the value
    // the scanner itself recomputes) or max_score() must yield that position.
    if nvalid > 0 {
        let best_i = (0..nvalid).max_by(|&a, &b| real[a].partial_cmp(&real[b]).unwrap_or(std::cmp::Ordering::Equal)).unwrap();
        let mut targets = vec![best_i, rng.below(nvalid), rng.below(nvalid)];
        targets.dedup();
        for &ti in targets.iter() {
            if !real[ti].is_finite() {
                continue;
            }
            for &arm in [Arm::DispAvx2, Arm::DispAuto].iter() {
                let b = *rng.pick(&[1usize, 7, 256]);
                let t = real[ti];
                let res = guard(|| {
                    force(arm);
                    let mut sc = lightmotif::scan::Scanner::new(&pssm, &striped);
                    unforce();
                    sc.threshold(t);
                    sc.block_size(b);
                    let mut found = false;
                    let mut n = 0usize;
                    while let Some(h) = sc.next() {
                        if h.position() == ti {
                            found = true;
                        }
                        n += 1;
                        if n > l + 2 {
                            break;
                        }
                    }
                    found
                });
                unforce();
                rep.cover("scanner.own_score_threshold");
                match res {
                    Err(p) => rep.violate(&format!("c08.panic:{}", panic_site(&p)), case, format!("panic while scanning: {}", p), wit()),
                    Ok(false) => rep.violate(
                        "c08.prefilter_lost_hit",
                        case,
                        format!("{}: scanner with threshold {} (the real score of position {}) and block size {} does not yield that position", arm.name(), t, ti, b),
                        wit().set("position", J::u(ti)).set("block_size", J::u(b)),
                    ),
                    Ok(true) => {}
                }
            }
        }
    }
    // DiscreteMatrix::score_position
    rep.cover("arm.score_position");
    for i in 0..nvalid {
        match guard(|| dm.score_position(&striped, i)) {
            Err(p) => {
                rep.violate(&format!("c08.panic:{}", panic_site(&p)), case, format!("panic in DiscreteMatrix::score_position({}): {}", i, p), wit());
                break;
            }
            Ok(got) => verdict(case, rep, "DiscreteMatrix::score_position", false, &dm_rows, &seq, i, got, need[i], &format!("scale(real score {})", real[i]), &wit),
        }
    }
    rep.sample(|| wit().set("case", J::UInt(case)).set("positions_checked_per_arm", J::u(nvalid)));
}

fn run_protein(case: u64, rng: &mut Rng, rep: &mut Report) {
    let k = 21;
    let m = rng.range(4, 30);
    let fam = *rng.pick(&[0usize, 1, 6]);
    let (rows, fam_name) = gen_c08_matrix(rng, k, m, fam);
    let l = rng.range(m, 300);
    let seq = gen_c08_seq(rng, rep, &rows, k, l);
    rep.eval();
    let pssm: ScoringMatrix<Protein> = scoring::<Protein>(&rows);
    let enc = encoded::<Protein>(&seq);
    let mut striped: StripedSequence<Protein, U32> = stripe_generic(&enc);
    striped.configure(&pssm);
    let r_rows = striped.matrix().rows() - striped.wrap();
    let nvalid = l - m + 1;
    let wit = || {
        J::obj()
            .set("alphabet", J::s("protein"))
            .set("family", J::s(fam_name))
            .set("L", J::u(l))
            .set("M", J::u(m))
            .set("sequence", J::s(fmt_seq_short::<Protein>(&seq)))
    };
    let dm: DiscreteMatrix<Protein> = pssm.to_discrete();
    let dm_rows: Vec<Vec<u8>> = (0..m).map(|i| dm.matrix()[i].to_vec()).collect();
    let mut out = StripedScores::<u8, U32>::empty();
    rep.cover("arm.generic.protein");
    let res = guard(|| Pipeline::<Protein, _>::generic().score_into(&dm, &striped, &mut out));
    let any_sat = (0..nvalid).any(|i| (0..m).map(|j| dm_rows[j][seq[i + j] as usize] as u32).sum::<u32>() > 255);
    if let Err(p) = res {
        let kind = if p.contains("attempt to add with overflow") && panic_site(&p).ends_with("src/pli/mod.rs") { "c08.generic_u8_wraps".to_string() } else { format!("c08.panic:{}", panic_site(&p)) };
        rep.violate(&kind, case, format!("generic (protein): panic while scoring in 8 bits: {}", p), wit());
        return;
    }
    for i in 0..nvalid {
        let real = pssm.score_position(&striped, i);
        let got = out.matrix()[i % r_rows][i / r_rows];
        verdict(case, rep, "generic", true, &dm_rows, &seq, i, got, dm.scale(real), &format!("scale(real score {})", real), &wit);
        match guard(|| dm.score_position(&striped, i)) {
            Err(p) => {
                rep.violate(&format!("c08.panic:{}", panic_site(&p)), case, format!("panic in DiscreteMatrix::score_position({}): {}", i, p), wit());
                break;
            }
            Ok(g) => verdict(case, rep, "DiscreteMatrix::score_position", false, &dm_rows, &seq, i, g, dm.scale(real), &format!("scale(real score {})", real), &wit),
        }
    }
}

// --- a user-defined alphabet with 12 symbols (11 letters + wildcard), through the public traits:
// the 8-bit shuffle kernel of the AVX2 platform accepts any alphabet with K <= 16 ----------------

#[derive(Clone, Copy, Debug, Default, PartialEq, Eq)]
#[repr(u8)]
pub enum L12 {
    A = 0,
    B = 1,
    C = 2,
    D = 3,
    E = 4,
    F = 5,
    G = 6,
    H = 7,
    I = 8,
    J = 9,
    K = 10,
    #[default]
    X = 11,
}

const L12_ALL: [L12; 12] = [L12::A, L12::B, L12::C, L12::D, L12::E, L12::F, L12::G, L12::H, L12::I, L12::J, L12::K, L12::X];

impl lightmotif::abc::Symbol for L12 {
    fn as_index(&self) -> usize {
        *self as usize
    }
    fn as_ascii(&self) -> u8 {
        b"ABCDEFGHIJKX"[*self as usize]
    }
    fn from_ascii(c: u8) -> Result<Self, lightmotif::err::InvalidSymbol> {
        match b"ABCDEFGHIJKX".iter().position(|&x| x == c) {
            Some(i) => Ok(L12_ALL[i]),
            None => Err(lightmotif::err::InvalidSymbol(c as char)),
        }
    }
}

#[derive(Clone, Copy, Debug, Default, PartialEq, Eq)]
pub struct Abc12;

impl Alphabet for Abc12 {
    type Symbol = L12;
    type K = lightmotif::num::U12;
    fn symbols() -> &'static [L12] {
        &L12_ALL
    }
    fn as_str() -> &'static str {
        "ABCDEFGHIJKX"
    }
}

fn run_custom12(case: u64, rng: &mut Rng, rep: &mut Report) {
    let k = 12;
    let m = rng.range(2, 24);
    let fam = *rng.pick(&[0usize, 1, 2, 3, 6]);
    let (rows, fam_name) = gen_c08_matrix(rng, k, m, fam);
    let l = rng.range(m, 400);
    let seq = gen_c08_seq(rng, rep, &rows, k, l);
    rep.eval();
    rep.cover("alphabet.user_defined_12_symbols");
    let pssm: ScoringMatrix<Abc12> = scoring::<Abc12>(&rows);
    let enc = encoded::<Abc12>(&seq);
    let mut striped: StripedSequence<Abc12, U32> = stripe_generic(&enc);
    striped.configure(&pssm);
    let r_rows = striped.matrix().rows() - striped.wrap();
    let nvalid = l - m + 1;
    let wit = || {
        J::obj()
            .set("alphabet", J::s("user-defined, 12 symbols ABCDEFGHIJK + wildcard X"))
            .set("family", J::s(fam_name))
            .set("L", J::u(l))
            .set("M", J::u(m))
            .set("sequence", J::s(fmt_seq_short::<Abc12>(&seq)))
    };
    let dm: DiscreteMatrix<Abc12> = match guard(|| pssm.to_discrete()) {
        Ok(d) => d,
        Err(p) => {
            rep.violate(&format!("c08.panic:{}", panic_site(&p)), case, format!("panic in to_discrete: {}", p), wit());
            return;
        }
    };
    let dm_rows: Vec<Vec<u8>> = (0..m).map(|i| dm.matrix()[i].to_vec()).collect();
    let need: Vec<u8> = (0..nvalid).map(|i| dm.scale(pssm.score_position(&striped, i))).collect();
    for arm in ["generic", "avx2_shuffle"] {
        let mut out = StripedScores::<u8, U32>::empty();
        rep.cover(&format!("arm.{}.user_defined_12", arm));
        let res = guard(|| match arm {
            "generic" => Pipeline::<Abc12, _>::generic().score_into(&dm, &striped, &mut out),
            _ => lightmotif::pli::platform::Avx2::score_u8_rows_into_shuffle::<Abc12, _, _>(&dm, &striped, 0..r_rows, &mut out),
        });
        if let Err(p) = res {
            let kind = if arm == "generic" && p.contains("attempt to add with overflow") && panic_site(&p).ends_with("src/pli/mod.rs") { "c08.generic_u8_wraps".to_string() } else { format!("c08.panic:{}", panic_site(&p)) };
            rep.violate(&kind, case, format!("{} (user-defined alphabet): panic while scoring in 8 bits: {}", arm, p), wit());
            return;
        }
        for i in 0..nvalid {
            let got = out.matrix()[i % r_rows][i / r_rows];
            verdict(case, rep, arm, arm == "generic", &dm_rows, &seq, i, got, need[i], "scale(real score)", &wit);
        }
    }
}

/// consequence clause under reconfiguration: the byte threshold must always be the image of the
/// threshold in effect - a scanner whose threshold is changed between next() calls still yields
/// every position found by the blocks scored afterwards (saturating arms only)
fn run_history(case: u64, rng: &mut Rng, rep: &mut Report) {
    let m = *rng.pick(&crate::c02::SCAN_WIDTHS);
    let l = rng.range(m.max(64), 4000);
    let inp = loop {
        let inp = crate::c02::make_scan_input(rng, l, m, false);
        // the property is about matrices whose non-wildcard entries are finite
        if inp.rows.iter().all(|r| r[..4].iter().all(|x| x.is_finite())) {
            break inp;
        }
    };
    // (the SSE2 arm of the dispatcher saturates as well; only the generic arm wraps)
    for &arm in [Arm::DispAvx2, Arm::DispAuto, Arm::DispSse2].iter() {
        crate::scanhist::history_case(case, rng, rep, &inp, arm, crate::scanhist::Finish::Exhaust, "c08", Some("c08.prefilter_lost_hit"));
    }
    // the best hit must survive the pre-filter of max() as well: near-tie inputs (wide matrices with
    // fractional entries, few-valued matrices) where a worse position has the larger byte score
    let m2 = rng.range(8, 33);
    let l2 = rng.range(m2.max(200), 3000);
    let near = loop {
        let inp = crate::c02::make_scan_input(rng, l2, m2, true);
        if inp.rows.iter().all(|r| r[..4].iter().all(|x| x.is_finite())) {
            break inp;
        }
    };
    for &arm in [Arm::DispAvx2, Arm::DispAuto, Arm::DispSse2].iter() {
        crate::scanhist::history_case(case, rng, rep, &near, arm, crate::scanhist::Finish::Max, "c08", None);
        rep.cover("class.history.max_on_near_ties");
    }
}

pub fn run(cfg: &Config) -> Report {
    let n = cfg.n(3000, 120_000) as u64;
    run_cases(cfg, n, |case, rng, rep| {
        if case % 16 == 5 {
            run_custom12(case, rng, rep)
        } else if case % 8 == 7 {
            run_protein(case, rng, rep)
        } else if case % 8 == 3 {
            run_history(case, rng, rep)
        } else {
            run_dna(case, rng, rep)
        }
    })
}

#[allow(dead_code)]
fn _k<A: Alphabet>() -> usize {
    k_of::<A>()
}
