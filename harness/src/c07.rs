//! C07 - maximum, arg-maximum and thresholding of striped scores match their definitions.
use std::collections::HashSet;

use lightmotif::abc::Dna;
use lightmotif::dense::MatrixCoordinates;
use lightmotif::num::{PositiveLength, U16, U32};
use lightmotif::pli::{Maximum, Pipeline, Threshold};
use lightmotif::scores::{Scores, StripedScores};
use lightmotif::seq::StripedSequence;

use crate::common::*;
use crate::json::J;
use crate::model::*;
use crate::rng::Rng;

pub const RULE: &str = "case = one score matrix (f32 or u8; 32 or 16 columns) built through the public StripedScores API, possibly in a buffer that previously held more rows of larger values: row counts {0,1,2,3,7,8,9,31,32,33,255,256,257,1000,...,65536 for u8}; value families random / all-negative / all-equal / +-inf / signed zeros / planted strict maximum in every column and first, last, random row / duplicated maxima / all 0 / all 255. The declared position count of a hand-built matrix (all cells, fewer, zero, or some for a matrix without rows) must not matter: the definitions are over cells. Column counts above 32 (48, 64) on the generic and SSE2 arms. Column counts whose rows leave alignment padding (f32 x 1/4/5 columns, u8 x 16) are included for the arms that accept them: padding is not a cell. Every arm (generic, sse2, avx2, dispatch forced to each arm and unforced, StripedScores::{max,argmax,threshold}, Scores::{max,argmax,threshold}) is compared with a scalar fold over ALL cells: max value, matrix[argmax] == max, threshold(t) == set of cells >= t (each once), empty => None, agreement across arms. Second family: real scorings with a -inf wildcard column: every cell past the last valid position must be -inf and the max must be the best valid score. Non-trivial = matrix with >= 1 row; distinct = distinct (type, C, rows, cell contents).";

pub const REQUIRED: &[&str] = &[
    "f32.c32.generic", "f32.c32.sse2", "f32.c32.avx2", "f32.c32.dispatch[generic]", "f32.c32.dispatch[sse2]",
    "f32.c32.dispatch[avx2]", "f32.c32.dispatch[auto]", "f32.c32.StripedScores", "f32.c16.generic", "f32.c16.sse2",
    "u8.c32.generic", "u8.c32.sse2", "u8.c32.avx2", "u8.c32.dispatch[generic]", "u8.c32.dispatch[sse2]",
    "u8.c32.dispatch[avx2]", "u8.c32.dispatch[auto]", "u8.c32.StripedScores", "Scores", "family.all_negative",
    "family.planted", "family.sparse_tiny_maximum", "history.cells_rewritten_between_queries", "family.duplicated_max", "family.infinities", "family.all_equal", "rows.0", "rows.1", "rows>256",
    "rows>32768", "reused_larger_buffer", "declared_positions.zero", "declared_positions.no_rows", "declared_positions.fewer_than_cells", "f32.padded_rows.generic", "f32.wide_rows.sse2", "u8.padded_rows.generic", "real.padding_cells_checked", "real.finite_max", "real.threshold_checked", "dispatch_forced.generic",
    "dispatch_forced.sse2", "dispatch_forced.avx2",
];

pub trait Val: lightmotif::dense::MatrixElement + PartialOrd + std::fmt::Debug + Send + Sync + 'static {
    fn tname() -> &'static str;
    fn to_f64(self) -> f64;
    fn bits(self) -> u64;
}
impl Val for f32 {
    fn tname() -> &'static str {
        "f32"
    }
    fn to_f64(self) -> f64 {
        self as f64
    }
    fn bits(self) -> u64 {
        self.to_bits() as u64
    }
}
impl Val for u8 {
    fn tname() -> &'static str {
        "u8"
    }
    fn to_f64(self) -> f64 {
        self as f64
    }
    fn bits(self) -> u64 {
        self as u64
    }
}

/// results of one arm
struct ArmResult<T> {
    name: String,
    max: Option<T>,
    argmax: Option<(usize, usize)>,
    thresholds: Vec<Vec<(usize, usize)>>,
}

fn via_pipeline<T: Val, C: PositiveLength, P: Maximum<T, C> + Threshold<T, C>>(
    name: &str,
    p: &P,
    scores: &StripedScores<T, C>,
    ts: &[T],
) -> ArmResult<T> {
    let max = p.max(scores);
    let argmax = p.argmax(scores).map(|mc: MatrixCoordinates| (mc.row, mc.col));
    let thresholds = ts
        .iter()
        .map(|&t| p.threshold(scores, t).into_iter().map(|mc| (mc.row, mc.col)).collect())
        .collect();
    ArmResult { name: name.to_string(), max, argmax, thresholds }
}

fn decode(off: usize, rows: usize) -> (usize, usize) {
    if rows == 0 {
        (usize::MAX, usize::MAX)
    } else {
        (off % rows, off / rows)
    }
}

fn judge<T: Val, C: PositiveLength>(
    case: u64,
    rep: &mut Report,
    scores: &StripedScores<T, C>,
    ts: &[T],
    res: Result<ArmResult<T>, String>,
    arm_name: &str,
    desc: &J,
    agreed_max: &mut Option<(String, T)>,
) {
    let rows = scores.matrix().rows();
    let c = C::USIZE;
    let wit = |extra: J| J::obj().set("arm", J::s(arm_name)).set("matrix", desc.clone()).set("detail", extra);
    let r = match res {
        Err(p) => {
            rep.violate(&format!("c07.panic:{}", panic_site(&p)), case, format!("{}: panic: {}", arm_name, p), wit(J::Null));
            return;
        }
        Ok(r) => r,
    };
    // model fold over all cells
    let mut best: Option<T> = None;
    for i in 0..rows {
        for j in 0..c {
            let v = scores.matrix()[i][j];
            best = match best {
                None => Some(v),
                Some(b) => Some(if v > b { v } else { b }),
            };
        }
    }
    if rows == 0 {
        if r.max.is_some() || r.argmax.is_some() || r.thresholds.iter().any(|t| !t.is_empty()) {
            rep.violate("c07.empty", case, format!("{}: empty matrix gives max={:?} argmax={:?}", r.name, r.max, r.argmax), wit(J::Null));
        }
        return;
    }
    let best = best.unwrap();
    match r.max {
        Some(m) if m == best => {}
        other => {
            rep.violate(
                "c07.max",
                case,
                format!("{}: max() = {:?}, the largest cell is {:?}", r.name, other, best),
                wit(J::obj().set("got", J::s(format!("{:?}", other))).set("expected", J::s(format!("{:?}", best)))),
            );
        }
    }
    match r.argmax {
        Some((row, col)) if row < rows && col < c && scores.matrix()[row][col] == best => {}
        other => {
            let held = match other {
                Some((row, col)) if row < rows && col < c => format!("{:?}", scores.matrix()[row][col]),
                _ => "outside the matrix".to_string(),
            };
            rep.violate(
                "c07.argmax",
                case,
                format!("{}: argmax() = {:?} which holds {}, the maximum is {:?}", r.name, other, held, best),
                wit(J::Null),
            );
        }
    }
    for (t, got) in ts.iter().zip(r.thresholds.iter()) {
        let mut expect: HashSet<(usize, usize)> = HashSet::new();
        for i in 0..rows {
            for j in 0..c {
                if scores.matrix()[i][j] >= *t {
                    expect.insert((i, j));
                }
            }
        }
        let got_set: HashSet<(usize, usize)> = got.iter().cloned().collect();
        if got_set.len() != got.len() {
            rep.violate("c07.threshold", case, format!("{}: threshold({:?}) returns a cell more than once", r.name, t), wit(J::Null));
        } else if got_set != expect {
            let missing: Vec<_> = expect.difference(&got_set).take(3).collect();
            let extra: Vec<_> = got_set.difference(&expect).take(3).collect();
            rep.violate(
                "c07.threshold",
                case,
                format!(
                    "{}: threshold({:?}) returns {} cells, {} cells are >= t; missing e.g. {:?}, extra e.g. {:?}",
                    r.name, t, got.len(), expect.len(), missing, extra
                ),
                wit(J::Null),
            );
        }
    }
    if let Some(m) = r.max {
        match agreed_max {
            None => *agreed_max = Some((r.name.clone(), m)),
            Some((n0, m0)) => {
                if !(m == *m0) {
                    rep.violate(
                        "c07.crossarm",
                        case,
                        format!("{} reports max {:?} but {} reports {:?}", r.name, m, n0, m0),
                        wit(J::Null),
                    );
                }
            }
        }
    }
}

fn thresholds_for<T: Val>(rng: &mut Rng, cells: &[T], lo: T, hi: T) -> Vec<T> {
    let mut ts = vec![lo, hi];
    if !cells.is_empty() {
        ts.push(cells[rng.below(cells.len())]);
        ts.push(cells[rng.below(cells.len())]);
    }
    ts
}

fn describe<T: Val, C: PositiveLength>(scores: &StripedScores<T, C>, family: &str, planted: Option<(usize, usize)>) -> J {
    let rows = scores.matrix().rows();
    let mut j = J::obj()
        .set("type", J::s(T::tname()))
        .set("columns", J::u(C::USIZE))
        .set("rows", J::u(rows))
        .set("family", J::s(family));
    if let Some((r, c)) = planted {
        j = j.set("planted_max_at", J::Arr(vec![J::u(r), J::u(c)]));
    }
    if rows <= 3 {
        j = j.set(
            "cells",
            J::Arr((0..rows).map(|i| J::Arr(scores.matrix()[i].iter().map(|v| J::f(v.to_f64())).collect())).collect()),
        );
    }
    j
}

fn digest_of<T: Val, C: PositiveLength>(scores: &StripedScores<T, C>) -> u64 {
    let mut d = Digest::new();
    d.bytes(T::tname().as_bytes()).u(C::USIZE as u64).u(scores.matrix().rows() as u64);
    for row in scores.matrix().iter() {
        for v in row {
            d.u(v.bits());
        }
    }
    d.get()
}

// ---- f32 ----------------------------------------------------------------------

const ROWS: [usize; 16] = [0, 1, 2, 3, 7, 8, 9, 31, 32, 33, 255, 256, 257, 1000, 100, 17];

/// The number of positions a hand-built score matrix declares (`max_index`) is bookkeeping for
/// the position accessors; maximum / arg-maximum / threshold are defined over the CELLS, so any
/// declared count - all cells, fewer, none, or some for a matrix without rows - must not matter.
fn declared_positions(rng: &mut Rng, rep: &mut Report, rows: usize, c: usize) -> usize {
    let all = rows * c;
    match rng.below(8) {
        0 => {
            rep.cover("declared_positions.zero");
            if rows == 0 {
                rep.cover("declared_positions.no_rows");
            }
            0
        }
        1 => {
            if rows == 0 {
                rep.cover("declared_positions.no_rows");
                rng.range(1, 100)
            } else {
                rep.cover("declared_positions.fewer_than_cells");
                all.saturating_sub(rng.range(1, c))
            }
        }
        _ => {
            if rows == 0 {
                rep.cover("declared_positions.no_rows");
            }
            all
        }
    }
}

fn fill_f32<C: PositiveLength>(
    rng: &mut Rng,
    rep: &mut Report,
    rows: usize,
    family: usize,
    plant_col: usize,
) -> (StripedScores<f32, C>, &'static str, Option<(usize, usize)>) {
    let c = C::USIZE;
    let mut s = StripedScores::<f32, C>::empty();
    if rng.chance(0.4) {
        // the buffer held a larger matrix of larger values before
        s.resize(rows + rng.range(1, 9), 0);
        s.matrix_mut().fill(3.0e30);
        rep.cover("reused_larger_buffer");
    }
    s.resize(rows, declared_positions(rng, rep, rows, c));
    let mut planted = None;
    let name = match family {
        0 => {
            for i in 0..rows {
                for j in 0..c {
                    s.matrix_mut()[i][j] = rng.f32_in(-100.0, 100.0);
                }
            }
            "random"
        }
        1 => {
            for i in 0..rows {
                for j in 0..c {
                    s.matrix_mut()[i][j] = rng.f32_in(-1000.0, -0.001);
                }
            }
            rep.cover("family.all_negative");
            "all_negative"
        }
        2 => {
            let v = *rng.pick(&[-5.25f32, 0.0, -0.0, 17.5, f32::NEG_INFINITY]);
            for i in 0..rows {
                for j in 0..c {
                    s.matrix_mut()[i][j] = v;
                }
            }
            rep.cover("family.all_equal");
            "all_equal"
        }
        3 => {
            for i in 0..rows {
                for j in 0..c {
                    s.matrix_mut()[i][j] = match rng.below(12) {
                        0 => f32::NEG_INFINITY,
                        1 => {
                            if rng.chance(0.1) {
                                f32::INFINITY
                            } else {
                                -0.0
                            }
                        }
                        2 => 0.0,
                        _ => rng.f32_in(-50.0, -1.0),
                    };
                }
            }
            rep.cover("family.infinities");
            "infinities_and_zeros"
        }
        4 | 5 => {
            // planted strict maximum; background all negative in family 5
            let (lo, hi) = if family == 5 { (-900.0, -100.0) } else { (-50.0, 50.0) };
            for i in 0..rows {
                for j in 0..c {
                    s.matrix_mut()[i][j] = rng.f32_in(lo, hi);
                }
            }
            if rows > 0 {
                let r = match rng.below(3) {
                    0 => 0,
                    1 => rows - 1,
                    _ => rng.below(rows),
                };
                let col = plant_col % c;
                s.matrix_mut()[r][col] = if family == 5 { -3.5 } else { 77.25 };
                planted = Some((r, col));
            }
            rep.cover("family.planted");
            if family == 5 {
                rep.cover("family.all_negative");
            }
            "planted_max"
        }
        _ => {
            for i in 0..rows {
                for j in 0..c {
                    s.matrix_mut()[i][j] = rng.f32_in(-50.0, 10.0).round();
                }
            }
            if rows > 0 {
                for _ in 0..rng.range(2, 6) {
                    let r = rng.below(rows);
                    let col = rng.below(c);
                    s.matrix_mut()[r][col] = 12.0;
                }
            }
            rep.cover("family.duplicated_max");
            "duplicated_max"
        }
    };
    (s, name, planted)
}

fn case_f32_c32(case: u64, rng: &mut Rng, rep: &mut Report, rows: usize, family: usize, plant_col: usize) {
    let (s, fam, planted) = fill_f32::<U32>(rng, rep, rows, family, plant_col);
    rep.eval();
    rep.cover(&format!("rows.{}", if rows <= 1 { rows.to_string() } else { "n".into() }));
    if rows > 256 {
        rep.cover("rows>256");
    }
    if rows > 0 {
        rep.nontrivial(digest_of(&s));
    }
    let cells: Vec<f32> = s.matrix().iter().flat_map(|r| r.iter().cloned()).collect();
    let ts = thresholds_for(rng, &cells, f32::NEG_INFINITY, 1.0e31);
    let desc = describe(&s, fam, planted);
    let mut agreed = None;
    let g = Pipeline::<Dna, _>::generic();
    judge(case, rep, &s, &ts, guard(|| via_pipeline("generic", &g, &s, &ts)), "generic", &desc, &mut agreed);
    rep.cover("f32.c32.generic");
    let p = Pipeline::<Dna, _>::sse2().unwrap();
    judge(case, rep, &s, &ts, guard(|| via_pipeline("sse2", &p, &s, &ts)), "sse2", &desc, &mut agreed);
    rep.cover("f32.c32.sse2");
    let p = Pipeline::<Dna, _>::avx2().unwrap();
    judge(case, rep, &s, &ts, guard(|| via_pipeline("avx2", &p, &s, &ts)), "avx2", &desc, &mut agreed);
    rep.cover("f32.c32.avx2");
    for &arm in DISP_ARMS.iter() {
        let p = dispatch_pipeline::<Dna>(arm);
        unforce();
        judge(case, rep, &s, &ts, guard(|| via_pipeline(arm.name(), &p, &s, &ts)), arm.name(), &desc, &mut agreed);
        rep.cover(&format!("f32.c32.{}", arm.name()));
        // StripedScores methods under the same forced arm
        force(arm);
        let r = guard(|| ArmResult {
            name: format!("StripedScores under {}", arm.name()),
            max: s.max(),
            argmax: s.argmax().map(|o| decode(o, rows)),
            thresholds: ts.iter().map(|&t| s.threshold(t).into_iter().map(|o| decode(o, rows)).collect()).collect(),
        });
        unforce();
        judge(case, rep, &s, &ts, r, "StripedScores", &desc, &mut agreed);
        rep.cover("f32.c32.StripedScores");
    }
    // unstriped Scores over the same cells (column-major order = position order)
    if rows > 0 {
        let flat: Vec<f32> = (0..rows * 32).map(|i| s.matrix()[i % rows][i / rows]).collect();
        let sc = Scores::new(flat);
        let r = guard(|| ArmResult {
            name: "Scores".to_string(),
            max: sc.max(),
            argmax: sc.argmax().map(|o| decode(o, rows)),
            thresholds: ts.iter().map(|t| sc.threshold(t).into_iter().map(|o| decode(o, rows)).collect()).collect(),
        });
        judge(case, rep, &s, &ts, r, "Scores", &desc, &mut agreed);
        rep.cover("Scores");
    }
    rep.sample(|| J::obj().set("case", J::UInt(case)).set("matrix", desc.clone()).set("thresholds", J::Arr(ts.iter().map(|t| J::f(*t as f64)).collect())));
}

fn case_f32_c16(case: u64, rng: &mut Rng, rep: &mut Report, rows: usize, family: usize, plant_col: usize) {
    let (s, fam, planted) = fill_f32::<U16>(rng, rep, rows, family, plant_col);
    rep.eval();
    if rows > 0 {
        rep.nontrivial(digest_of(&s));
    }
    let cells: Vec<f32> = s.matrix().iter().flat_map(|r| r.iter().cloned()).collect();
    let ts = thresholds_for(rng, &cells, f32::NEG_INFINITY, 1.0e31);
    let desc = describe(&s, fam, planted);
    let mut agreed = None;
    let g = Pipeline::<Dna, _>::generic();
    judge(case, rep, &s, &ts, guard(|| via_pipeline("generic", &g, &s, &ts)), "generic", &desc, &mut agreed);
    rep.cover("f32.c16.generic");
    let p = Pipeline::<Dna, _>::sse2().unwrap();
    judge(case, rep, &s, &ts, guard(|| via_pipeline("sse2", &p, &s, &ts)), "sse2", &desc, &mut agreed);
    rep.cover("f32.c16.sse2");
}

/// column counts above 32 (any multiple of 16 is accepted by the generic and SSE2 arms)
fn case_f32_wide<C: PositiveLength + lightmotif::num::MultipleOf<U16>>(case: u64, rng: &mut Rng, rep: &mut Report, rows: usize, family: usize, plant_col: usize) {
    let (s, fam, planted) = fill_f32::<C>(rng, rep, rows, family, plant_col);
    rep.eval();
    if rows > 0 {
        rep.nontrivial(digest_of(&s));
    }
    let cells: Vec<f32> = s.matrix().iter().flat_map(|r| r.iter().cloned()).collect();
    let ts = thresholds_for(rng, &cells, f32::NEG_INFINITY, 1.0e31);
    let desc = describe(&s, fam, planted);
    let mut agreed = None;
    let g = Pipeline::<Dna, _>::generic();
    judge(case, rep, &s, &ts, guard(|| via_pipeline("generic", &g, &s, &ts)), "generic", &desc, &mut agreed);
    let p = Pipeline::<Dna, _>::sse2().unwrap();
    judge(case, rep, &s, &ts, guard(|| via_pipeline("sse2", &p, &s, &ts)), "sse2", &desc, &mut agreed);
    rep.cover("f32.wide_rows.sse2");
}

/// column counts whose rows do not fill the 32-byte aligned row (alignment padding after the last
/// column): only the generic arm accepts them. The padding may hold anything (here: what a larger
/// matrix of larger values left there) and is not a cell.
fn case_f32_padded<C: PositiveLength>(case: u64, rng: &mut Rng, rep: &mut Report, rows: usize, family: usize, plant_col: usize) {
    let (s, fam, planted) = fill_f32::<C>(rng, rep, rows, family, plant_col);
    rep.eval();
    if rows > 0 {
        rep.nontrivial(digest_of(&s));
    }
    let cells: Vec<f32> = s.matrix().iter().flat_map(|r| r.iter().cloned()).collect();
    let ts = thresholds_for(rng, &cells, f32::NEG_INFINITY, 1.0e31);
    let desc = describe(&s, fam, planted);
    let mut agreed = None;
    let g = Pipeline::<Dna, _>::generic();
    judge(case, rep, &s, &ts, guard(|| via_pipeline("generic", &g, &s, &ts)), "generic", &desc, &mut agreed);
    rep.cover("f32.padded_rows.generic");
}

fn case_u8_c16(case: u64, rng: &mut Rng, rep: &mut Report, rows: usize) {
    let mut s = StripedScores::<u8, U16>::empty();
    if rng.chance(0.6) {
        s.resize(rows + rng.range(1, 9), 0);
        s.matrix_mut().fill(255);
        rep.cover("reused_larger_buffer");
    }
    s.resize(rows, declared_positions(rng, rep, rows, 16));
    let hi = rng.range(1, 250);
    for i in 0..rows {
        for j in 0..16 {
            s.matrix_mut()[i][j] = rng.below(hi) as u8;
        }
    }
    rep.eval();
    if rows > 0 {
        rep.nontrivial(digest_of(&s));
    }
    let cells: Vec<u8> = s.matrix().iter().flat_map(|r| r.iter().cloned()).collect();
    let ts = thresholds_for(rng, &cells, 0u8, 255u8);
    let desc = describe(&s, "random_below_bound", None);
    let mut agreed = None;
    let g = Pipeline::<Dna, _>::generic();
    judge(case, rep, &s, &ts, guard(|| via_pipeline("generic", &g, &s, &ts)), "generic", &desc, &mut agreed);
    let p = Pipeline::<Dna, _>::sse2().unwrap();
    judge(case, rep, &s, &ts, guard(|| via_pipeline("sse2", &p, &s, &ts)), "sse2", &desc, &mut agreed);
    rep.cover("u8.padded_rows.generic");
}

// ---- u8 -----------------------------------------------------------------------

fn case_u8(case: u64, rng: &mut Rng, rep: &mut Report, rows: usize, family: usize, plant_col: usize) {
    let mut s = StripedScores::<u8, U32>::empty();
    if rng.chance(0.4) && rows < 5000 {
        s.resize(rows + rng.range(1, 9), 0);
        s.matrix_mut().fill(255);
        rep.cover("reused_larger_buffer");
    }
    s.resize(rows, declared_positions(rng, rep, rows, 32));
    let mut planted = None;
    let fam = match family % 6 {
        0 => {
            for i in 0..rows {
                for j in 0..32 {
                    s.matrix_mut()[i][j] = rng.below(256) as u8;
                }
            }
            "random"
        }
        1 => {
            s.matrix_mut().fill(0);
            rep.cover("family.all_equal");
            "all_0"
        }
        2 => {
            s.matrix_mut().fill(255);
            rep.cover("family.all_equal");
            "all_255"
        }
        3 | 4 if rng.chance(0.25) => {
            // almost everything 0: the maximum is a small number (1, 2, 3) held by a handful of cells,
            // whole columns are all-zero (no 16-bit / 8-bit packing trick may confuse 0 with 1)
            s.matrix_mut().fill(0);
            let top = rng.range(1, 3) as u8;
            if rows > 0 {
                for _ in 0..rng.range(1, 4) {
                    let r = rng.below(rows);
                    let col = if rng.chance(0.5) { rng.below(8) } else { rng.below(32) };
                    s.matrix_mut()[r][col] = top;
                }
            }
            rep.cover("family.sparse_tiny_maximum");
            "sparse_tiny_maximum"
        }
        3 | 4 => {
            let hi = rng.range(1, 200);
            for i in 0..rows {
                for j in 0..32 {
                    s.matrix_mut()[i][j] = rng.below(hi) as u8;
                }
            }
            if rows > 0 {
                let r = match rng.below(4) {
                    0 => 0,
                    1 => rows - 1,
                    2 => rows - 1 - rng.below(rows.min(40)),
                    _ => rng.below(rows),
                };
                let col = plant_col % 32;
                s.matrix_mut()[r][col] = hi as u8 + rng.range(0, 255 - hi) as u8;
                if s.matrix()[r][col] as usize == hi - 1 {
                    s.matrix_mut()[r][col] = hi as u8;
                }
                planted = Some((r, col));
            }
            rep.cover("family.planted");
            "planted_max"
        }
        _ => {
            for i in 0..rows {
                for j in 0..32 {
                    s.matrix_mut()[i][j] = rng.below(100) as u8;
                }
            }
            if rows > 0 {
                for _ in 0..rng.range(2, 6) {
                    let r = rng.below(rows);
                    let col = rng.below(32);
                    s.matrix_mut()[r][col] = 130;
                }
            }
            rep.cover("family.duplicated_max");
            "duplicated_max"
        }
    };
    rep.eval();
    rep.cover(&format!("rows.{}", if rows <= 1 { rows.to_string() } else { "n".into() }));
    if rows > 256 {
        rep.cover("rows>256");
    }
    if rows > 32768 {
        rep.cover("rows>32768");
    }
    if rows > 0 {
        rep.nontrivial(digest_of(&s));
    }
    let ts: Vec<u8> = if rows > 2000 {
        vec![255, 254]
    } else {
        let cells: Vec<u8> = s.matrix().iter().flat_map(|r| r.iter().cloned()).collect();
        thresholds_for(rng, &cells, 0, 255)
    };
    let desc = describe(&s, fam, planted);
    let mut agreed = None;
    let g = Pipeline::<Dna, _>::generic();
    judge(case, rep, &s, &ts, guard(|| via_pipeline("generic", &g, &s, &ts)), "generic", &desc, &mut agreed);
    rep.cover("u8.c32.generic");
    let p = Pipeline::<Dna, _>::sse2().unwrap();
    judge(case, rep, &s, &ts, guard(|| via_pipeline("sse2", &p, &s, &ts)), "sse2", &desc, &mut agreed);
    rep.cover("u8.c32.sse2");
    let p = Pipeline::<Dna, _>::avx2().unwrap();
    judge(case, rep, &s, &ts, guard(|| via_pipeline("avx2", &p, &s, &ts)), "avx2", &desc, &mut agreed);
    rep.cover("u8.c32.avx2");
    for &arm in DISP_ARMS.iter() {
        let p = dispatch_pipeline::<Dna>(arm);
        unforce();
        judge(case, rep, &s, &ts, guard(|| via_pipeline(arm.name(), &p, &s, &ts)), arm.name(), &desc, &mut agreed);
        rep.cover(&format!("u8.c32.{}", arm.name()));
        force(arm);
        let r = guard(|| ArmResult {
            name: format!("StripedScores under {}", arm.name()),
            max: s.max(),
            argmax: s.argmax().map(|o| decode(o, rows)),
            thresholds: ts.iter().map(|&t| s.threshold(t).into_iter().map(|o| decode(o, rows)).collect()).collect(),
        });
        unforce();
        judge(case, rep, &s, &ts, r, "StripedScores", &desc, &mut agreed);
        rep.cover("u8.c32.StripedScores");
    }
    // the same OBJECT asked again after its cells were rewritten in place (matrix_mut / as_mut, no
    // resize) and a clone rewritten after the original answered: nothing may be remembered
    if rows > 0 && rows <= 2000 {
        let mut s2 = s.clone();
        let _ = guard(|| (s2.max(), s2.argmax()));
        let (r, c) = (rng.below(rows), rng.below(32));
        let cur_max = s2.matrix().iter().flat_map(|x| x.iter().cloned()).max().unwrap_or(0);
        let raise = cur_max < 255 && rng.chance(0.5);
        if raise {
            s2.matrix_mut()[r][c] = cur_max + 1;
        } else {
            // lower every cell holding the maximum
            let m: &mut lightmotif::dense::DenseMatrix<u8, U32> = s2.as_mut();
            for i in 0..rows {
                for j in 0..32 {
                    if m[i][j] == cur_max {
                        m[i][j] = cur_max / 2;
                    }
                }
            }
        }
        let mut s3 = s2.clone();
        s3.matrix_mut()[rows - 1][31] = 255;
        for (label, obj) in [("rewritten in place", &s2), ("clone rewritten", &s3)] {
            let d2 = describe(obj, "history", None);
            let mut agreed2 = None;
            let r = guard(|| ArmResult {
                name: format!("StripedScores {}", label),
                max: obj.max(),
                argmax: obj.argmax().map(|o| decode(o, rows)),
                thresholds: ts.iter().map(|&t| obj.threshold(t).into_iter().map(|o| decode(o, rows)).collect()).collect(),
            });
            judge(case, rep, obj, &ts, r, "StripedScores (object history)", &d2, &mut agreed2);
        }
        rep.cover("history.cells_rewritten_between_queries");
    }
    rep.sample(|| J::obj().set("case", J::UInt(case)).set("matrix", desc.clone()));
}

// ---- real scorings ------------------------------------------------------------

fn case_real(case: u64, rng: &mut Rng, rep: &mut Report) {
    let m = *rng.pick(&[1usize, 2, 5, 8, 15, 16, 17, 33]);
    let l = match rng.below(4) {
        0 => rng.range(m, m + 70),
        1 => *rng.pick(&[63usize, 64, 65, 991, 1023, 1024, 1025, 1055, 1056, 1057]).max(&m),
        _ => rng.range(m, 3000),
    };
    let mk = *rng.pick(&[MatKind::LogOdds, MatKind::ZeroCounts, MatKind::FewValued]);
    let sk = *rng.pick(&SEQ_KINDS);
    let rows_m = gen_matrix(rng, 5, m, mk);
    let seq = gen_seq(rng, 5, l, sk);
    let exact = exact_scores(&rows_m, &seq);
    let pssm = scoring::<Dna>(&rows_m);
    let enc = encoded::<Dna>(&seq);
    let mut striped: StripedSequence<Dna, U32> = stripe_generic(&enc);
    striped.configure(&pssm);
    let r_rows = striped.matrix().rows() - striped.wrap();
    rep.eval();
    let best_exact = exact.iter().map(|e| e.0).fold(f64::NEG_INFINITY, f64::max);
    for &arm in ARMS32.iter() {
        let mut out = StripedScores::<f32, U32>::empty();
        let res = guard(|| score32::<Dna>(arm, &pssm, &striped, None, &mut out));
        unforce();
        let wit = || {
            J::obj()
                .set("arm", J::s(arm.name()))
                .set("L", J::u(l))
                .set("M", J::u(m))
                .set("matrix_kind", J::s(format!("{:?}", mk)))
                .set("sequence", J::s(fmt_seq_short::<Dna>(&seq)))
        };
        if let Err(p) = res {
            rep.violate(&format!("c07.panic:{}", panic_site(&p)), case, format!("panic while scoring: {}", p), wit());
            continue;
        }
        let mut bad = None;
        let mut n = 0u64;
        for i in exact.len()..r_rows * 32 {
            let v = out.matrix()[i % r_rows][i / r_rows];
            n += 1;
            if v != f32::NEG_INFINITY && bad.is_none() {
                bad = Some((i, v));
            }
        }
        rep.cover_n("real.padding_cells_checked", n);
        if let Some((i, v)) = bad {
            rep.violate(
                "c07.padding_not_neg_inf",
                case,
                format!("{}: cell of position {} (past the last valid position {}) holds {} instead of -inf", arm.name(), i, exact.len().saturating_sub(1), v),
                wit(),
            );
        }
        // thresholding a real score matrix: max_index = L-M+1 is in general not a multiple of the row
        // count, the last column is only partially filled - every cell >= t must still be returned
        {
            let finite: Vec<f32> = (0..exact.len()).map(|i| out.matrix()[i % r_rows][i / r_rows]).filter(|x| x.is_finite()).collect();
            if !finite.is_empty() {
                let t = finite[rng.below(finite.len())];
                force(if arm.is_dispatch() { arm } else { Arm::DispAuto });
                let got = guard(|| out.threshold(t));
                unforce();
                let direct = guard(|| match arm {
                    Arm::Sse2 => Pipeline::<Dna, _>::sse2().unwrap().threshold(&out, t),
                    Arm::Avx2 => Pipeline::<Dna, _>::avx2().unwrap().threshold(&out, t),
                    _ => Pipeline::<Dna, _>::generic().threshold(&out, t),
                });
                rep.cover("real.threshold_checked");
                let mut expect: Vec<usize> = Vec::new();
                for c in 0..32 {
                    for r in 0..r_rows {
                        if out.matrix()[r][c] >= t {
                            expect.push(c * r_rows + r);
                        }
                    }
                }
                expect.sort();
                match (got, direct) {
                    (Ok(mut g), Ok(d)) => {
                        g.sort();
                        let mut d: Vec<usize> = d.into_iter().map(|mc| mc.col * r_rows + mc.row).collect();
                        d.sort();
                        if g != expect || d != expect {
                            let miss = expect.iter().find(|x| !g.contains(x) || !d.contains(x));
                            rep.violate(
                                "c07.real_threshold",
                                case,
                                format!("{}: threshold({}) on a real score matrix ({} rows, {} positions) returns {} / {} cells, {} cells are >= t; e.g. position {:?} is missing", arm.name(), t, r_rows, exact.len(), g.len(), d.len(), expect.len(), miss),
                                wit(),
                            );
                        }
                    }
                    (Err(p), _) | (_, Err(p)) => rep.violate(&format!("c07.panic:{}", panic_site(&p)), case, format!("panic in threshold: {}", p), wit()),
                }
            }
        }
        if best_exact.is_finite() {
            rep.cover("real.finite_max");
            force(arm);
            let mx = guard(|| (out.max(), out.argmax()));
            unforce();
            match mx {
                Err(p) => rep.violate(&format!("c07.panic:{}", panic_site(&p)), case, format!("panic in max: {}", p), wit()),
                Ok((mx, amx)) => {
                    let best_valid = (0..exact.len()).map(|i| out.matrix()[i % r_rows][i / r_rows]).fold(f32::NEG_INFINITY, f32::max);
                    if mx != Some(best_valid) {
                        rep.violate(
                            "c07.real_max",
                            case,
                            format!("{}: max() = {:?} but the best valid position scores {}", arm.name(), mx, best_valid),
                            wit(),
                        );
                    }
                    match amx {
                        Some(p) if p < exact.len() && out[p] == best_valid => {}
                        other => rep.violate(
                            "c07.real_argmax",
                            case,
                            format!("{}: argmax() = {:?}, not a valid position holding the best score {}", arm.name(), other, best_valid),
                            wit(),
                        ),
                    }
                }
            }
        }
    }
    let mut d = Digest::new();
    d.bytes(b"real").bytes(&seq);
    for r in &rows_m {
        d.f32s(r);
    }
    rep.nontrivial(d.get());
}

/// one synthetic matrix through every arm (used by the memory-checker workload)
pub fn synthetic_case(case: u64, rng: &mut Rng, rep: &mut Report, rows: usize, family: usize, plant_col: usize) {
    match rng.below(5) {
        0 => case_f32_c32(case, rng, rep, rows, family, plant_col),
        1 => case_f32_c16(case, rng, rep, rows, family, plant_col),
        2 => case_f32_wide::<lightmotif::num::U48>(case, rng, rep, rows, family, plant_col),
        3 => case_f32_wide::<lightmotif::num::U64>(case, rng, rep, rows, family, plant_col),
        _ => case_u8(case, rng, rep, rows, family, plant_col),
    }
}

pub fn run(cfg: &Config) -> Report {
    // deterministic sweep: (row class x planted column) for f32 and u8, then random cases
    let sweep = (ROWS.len() * 32) as u64;
    let big_u8: [usize; 6] = [65536, 40000, 32769, 32768, 5000, 65535];
    let n_big = if cfg.thorough() { 64 } else { 12 } as u64;
    let n_rand = cfg.n(6000, 60_000) as u64;
    let n_real = cfg.n(600, 10_000) as u64;
    let total = 2 * sweep + n_big + n_rand + n_real;
    run_cases(cfg, total, |case, rng, rep| {
        if case < sweep {
            let rows = ROWS[(case / 32) as usize];
            case_f32_c32(case, rng, rep, rows, 4 + (case % 2) as usize, (case % 32) as usize);
        } else if case < 2 * sweep {
            let k = case - sweep;
            case_u8(case, rng, rep, ROWS[(k / 32) as usize], 3, (k % 32) as usize);
        } else if case < 2 * sweep + n_big {
            let k = (case - 2 * sweep) as usize;
            let col = rng.below(32);
            case_u8(case, rng, rep, big_u8[k % big_u8.len()], 3, col);
        } else if case < 2 * sweep + n_big + n_rand {
            let rows = if rng.chance(0.1) { rng.range(258, 5000) } else { *rng.pick(&ROWS) };
            let fam = rng.below(7);
            let col = rng.below(32);
            match rng.below(7) {
                0 | 1 => case_f32_c32(case, rng, rep, rows, fam, col),
                2 => case_f32_c16(case, rng, rep, rows.min(1000), fam, col),
                3 => match rng.below(3) {
                    0 => case_f32_padded::<lightmotif::num::U1>(case, rng, rep, rows.min(1000), fam, col),
                    1 => case_f32_padded::<lightmotif::num::U4>(case, rng, rep, rows.min(1000), fam, col),
                    _ => case_f32_padded::<lightmotif::num::U5>(case, rng, rep, rows.min(1000), fam, col),
                },
                4 => case_u8_c16(case, rng, rep, rows.min(1000)),
                5 if rng.chance(0.5) => {
                    if rng.chance(0.5) {
                        case_f32_wide::<lightmotif::num::U48>(case, rng, rep, rows.min(1000), fam, col)
                    } else {
                        case_f32_wide::<lightmotif::num::U64>(case, rng, rep, rows.min(1000), fam, col)
                    }
                }
                _ => case_u8(case, rng, rep, rows, fam, col),
            }
        } else {
            case_real(case, rng, rep);
        }
    })
}
