//! C15 - motif file readers never panic or hang on malformed input.
use std::io::Cursor;

use crate::common::*;
use crate::iogen::*;
use crate::json::J;
use crate::rng::Rng;

pub const RULE: &str = "case = one valid base file (generated with 1..3 records, or a bundled test file) of one format, from which malformed inputs are derived: EVERY prefix, single-byte substitution / deletion / insertion at every offset (quick: 3 sampled (operation, byte) pairs per offset; thorough: all) with bytes from {'>','[',']',':','/',tab,space,LF,CR,digit,letter,0x00,0x80,0xFF}, dropped final newline, ragged rows, header without matrix, matrix without header, huge numbers, duplicated symbol rows; plus fixed inputs (empty, whitespace, random bytes, invalid UTF-8). Each input is given to the reader of its format (1 in 4 also to the three other readers) through a Cursor or a random chunking schedule (BufReader capacity 1..300, short reads, injected Interrupted). Oracle: Reader::new and every next() run under catch_unwind (panic = violation); the consumer stops at the first Err / None and may receive at most (input length + 2) records; a reader polling end-of-input more than 10000 times is a livelock (decided on logical steps, not on the clock). Non-trivial = input that differs from its base file; distinct = distinct (format reader, input bytes).";

pub const REQUIRED: &[&str] = &[
    "reader.jaspar", "reader.jaspar16", "reader.transfac", "reader.uniprobe", "reader.protein", "input.empty",
    "input.prefix", "input.substitution", "input.deletion", "input.insertion", "input.multibyte_insertion", "input.no_final_newline",
    "input.ragged", "input.header_only", "input.matrix_only", "input.huge_number", "input.duplicate_symbol",
    "input.random_bytes", "input.invalid_utf8", "outcome.error", "outcome.records", "schedule.chunked",
    "schedule.cursor", "cross_format",
];

const BYTES: [u8; 16] = [b'>', b'[', b']', b':', b'/', b'\t', b' ', b'\n', b'\r', b'7', b'A', b'N', 0x00, 0x80, 0xFF, b'.'];

fn feed(case: u64, rng: &mut Rng, rep: &mut Report, format: Format, protein: bool, input: &[u8], class: &str, base_label: &str) {
    rep.eval();
    rep.cover(&format!("reader.{}", format.name()));
    if protein {
        rep.cover("reader.protein");
    }
    let mut d = Digest::new();
    d.bytes(format.name().as_bytes()).u(protein as u64).bytes(input);
    rep.nontrivial(d.get());
    let use_cursor = rng.chance(0.4);
    let sched = Schedule {
        capacity: if rng.chance(0.3) { 1 } else { 1 + rng.below(300) },
        max_chunk: if rng.chance(0.3) { 1 } else { rng.below(200) },
        interrupt: if rng.chance(0.3) { 0.2 } else { 0.0 },
        seed: rng.next_u64(),
    };
    let mut polled = 0u64;
    let res = if use_cursor {
        rep.cover("schedule.cursor");
        guard(|| read_all(format, protein, Cursor::new(input), input.len()))
    } else {
        rep.cover("schedule.chunked");
        let (b, counters) = chunked(input, &sched);
        let r = guard(|| read_all(format, protein, b, input.len()));
        polled = counters.eof_reads.get();
        r
    };
    let wit = || {
        J::obj()
            .set("reader", J::s(format.name()))
            .set("protein", J::Bool(protein))
            .set("class", J::s(class))
            .set("derived_from", J::s(base_label))
            .set("schedule", if use_cursor { J::s("Cursor") } else { J::s(format!("{:?}", sched)) })
            .set("input_len", J::u(input.len()))
            .set("input_lossy", J::s(String::from_utf8_lossy(&input[..input.len().min(400)]).to_string()))
            .set("input_bytes", J::Arr(input.iter().take(400).map(|&b| J::u(b as usize)).collect()))
    };
    match res {
        Err(p) => rep.violate(
            &format!("c15.panic:{}", panic_site(&p)),
            case,
            format!("{} reader panicked on a {} input: {}", format.name(), class, p),
            wit(),
        ),
        Ok(Outcome::Runaway(n)) => rep.violate(
            "c15.runaway",
            case,
            format!("{} reader returned {} records for {} bytes: a consumer stopping at the first error or end of input would not terminate", format.name(), n, input.len()),
            wit(),
        ),
        Ok(Outcome::Error(_, _)) => rep.cover("outcome.error"),
        Ok(Outcome::Records(_)) => rep.cover("outcome.records"),
    }
    if polled > EOF_POLL_LIMIT {
        rep.violate(
            "c15.livelock",
            case,
            format!("{} reader polled the end of input more than {} times", format.name(), EOF_POLL_LIMIT),
            wit(),
        );
    }
}

fn derive_and_feed(case: u64, rng: &mut Rng, rep: &mut Report, cfg: &Config, format: Format, protein: bool, base: &[u8], label: &str) {
    let others: Vec<Format> = FORMATS.iter().cloned().filter(|f| *f != format).collect();
    let mut send = |rng: &mut Rng, rep: &mut Report, input: &[u8], class: &str| {
        rep.cover(&format!("input.{}", class));
        feed(case, rng, rep, format, protein, input, class, label);
        if rng.chance(0.25) {
            rep.cover("cross_format");
            let f = *rng.pick(&others);
            feed(case, rng, rep, f, protein && f != Format::Jaspar, input, class, label);
        }
    };
    // the base file itself must be fine
    send(rng, rep, base, "valid_base");
    // every prefix
    for n in 0..base.len() {
        send(rng, rep, &base[..n], "prefix");
    }
    // no final newline
    if base.last() == Some(&b'\n') {
        send(rng, rep, &base[..base.len() - 1], "no_final_newline");
    }
    // single-byte edits at every offset
    // thorough: every (operation, byte) pair at every offset of small files, 12 sampled pairs otherwise
    let exhaustive_edits = cfg.thorough() && base.len() <= 500;
    let per_offset = if exhaustive_edits { BYTES.len() * 3 } else if cfg.thorough() { 12 } else { 3 };
    let mut buf: Vec<u8> = Vec::with_capacity(base.len() + 1);
    for off in 0..base.len() {
        for e in 0..per_offset {
            let (op, b) = if exhaustive_edits { (e % 3, BYTES[e / 3]) } else { (rng.below(3), *rng.pick(&BYTES)) };
            buf.clear();
            match op {
                0 => {
                    if base[off] == b {
                        continue;
                    }
                    buf.extend_from_slice(base);
                    buf[off] = b;
                    send(rng, rep, &buf, "substitution");
                }
                1 => {
                    buf.extend_from_slice(&base[..off]);
                    buf.extend_from_slice(&base[off + 1..]);
                    send(rng, rep, &buf, "deletion");
                }
                _ => {
                    buf.extend_from_slice(&base[..off]);
                    buf.push(b);
                    buf.extend_from_slice(&base[off..]);
                    send(rng, rep, &buf, "insertion");
                }
            }
        }
    }
    // a multi-byte character (valid UTF-8, 2 / 3 / 4 bytes) inserted at every offset, also overwriting
    // the byte that follows: character boundaries no longer coincide with the byte offsets a parser assumes
    const MULTI: [&str; 4] = ["\u{e9}", "\u{20ac}", "\u{1d11e}", "\u{3b2}"];
    for off in 0..=base.len() {
        if std::str::from_utf8(&base[..off]).is_err() {
            continue;
        }
        let ch = if cfg.thorough() { MULTI[off % 4] } else { *rng.pick(&MULTI) };
        buf.clear();
        buf.extend_from_slice(&base[..off]);
        buf.extend_from_slice(ch.as_bytes());
        let skip = if rng.chance(0.5) { 0 } else { 1 };
        if off + skip <= base.len() && std::str::from_utf8(&base[off + skip..]).is_ok() {
            buf.extend_from_slice(&base[off + skip..]);
            send(rng, rep, &buf, "multibyte_insertion");
        }
    }
    // structural damage on the line level
    let text = String::from_utf8_lossy(base).to_string();
    let lines: Vec<&str> = text.split_inclusive('\n').collect();
    if lines.len() >= 3 {
        // ragged: drop the last token of one matrix line / add one token
        for _ in 0..6 {
            let li = rng.below(lines.len());
            let mut toks: Vec<&str> = lines[li].trim_end_matches('\n').split(' ').collect();
            if toks.len() >= 2 {
                if rng.chance(0.5) {
                    toks.pop();
                } else {
                    toks.push("7");
                }
                let mut t = String::new();
                for (i, l) in lines.iter().enumerate() {
                    if i == li {
                        t.push_str(&toks.join(" "));
                        t.push('\n');
                    } else {
                        t.push_str(l);
                    }
                }
                send(rng, rep, t.as_bytes(), "ragged");
            }
        }
        // header only / matrix only
        send(rng, rep, lines[0].as_bytes(), "header_only");
        let t: String = lines[1..].concat();
        send(rng, rep, t.as_bytes(), "matrix_only");
        // duplicated line (duplicate symbol row / header)
        for _ in 0..4 {
            let li = rng.below(lines.len());
            let mut t = String::new();
            for (i, l) in lines.iter().enumerate() {
                t.push_str(l);
                if i == li {
                    t.push_str(l);
                }
            }
            send(rng, rep, t.as_bytes(), "duplicate_symbol");
        }
        // removed line
        for _ in 0..4 {
            let li = rng.below(lines.len());
            let t: String = lines.iter().enumerate().filter(|(i, _)| *i != li).map(|(_, l)| *l).collect();
            send(rng, rep, t.as_bytes(), "ragged");
        }
    }
    // huge numbers: replace a digit run by a very long one
    if let Some(p) = base.iter().position(|b| b.is_ascii_digit()) {
        for big in ["99999999999999999999999999", "4294967296", "1e400", "-5", "0.0000000000000000000000000000000000000000000001", "NaN", "inf"] {
            let mut end = p;
            while end < base.len() && base[end].is_ascii_digit() {
                end += 1;
            }
            let mut t = base[..p].to_vec();
            t.extend_from_slice(big.as_bytes());
            t.extend_from_slice(&base[end..]);
            send(rng, rep, &t, "huge_number");
        }
    }
}

fn fixed_inputs(case: u64, rng: &mut Rng, rep: &mut Report) {
    let fixed: Vec<(&[u8], &str)> = vec![
        (b"", "empty"),
        (b" ", "empty"),
        (b"\n", "empty"),
        (b"\n\n \t\n", "empty"),
        (b">", "header_only"),
        (b">\n", "header_only"),
        (b">x", "header_only"),
        (b">x\n", "header_only"),
        (b">x\n1 2 3\n1 2\n1 2 3\n1 2 3\n", "ragged"),
        (b">x\n1 2 3\n1 2 3\n1 2 3\n", "ragged"),
        (b">x\nA [1 2 3]\nC [1 2]\nG [1 2 3]\nT [1 2 3]\n", "ragged"),
        (b">x\nA [1 2 3]\nA [1 2 3]\n", "duplicate_symbol"),
        (b"AC x\nP0  ", "prefix"),
        (b"AC x\nP0", "prefix"),
        (b"P0      A      C      G      T\n", "matrix_only"),
        (b"AC x\nP0      A      C      G      T\n01 1 2\n//\n", "ragged"),
        (b"//\n", "header_only"),
        (b"//", "header_only"),
        (b"VV x\n", "header_only"),
        (b"VV", "header_only"),
        (b"XX\nXX\n", "header_only"),
        (b"hello\n", "header_only"),
        (b"hello", "header_only"),
        (b"hello\nA:\t0.5\n", "ragged"),
        (b"hello\nA:\t0.25\nC:\t0.25\nG:\t0.25\nT:\t0.25", "no_final_newline"),
        (b"A:\t0.25\nC:\t0.25\nG:\t0.25\nT:\t0.25\n", "matrix_only"),
        (b"\xff\xfe\xfd", "invalid_utf8"),
        (b">x\xff\n1 2\n1 2\n1 2\n1 2\n", "invalid_utf8"),
        (b"AC \xc3\x28\nXX\n//\n", "invalid_utf8"),
        (b"id\xf0\x28\x8c\x28\nA:\t1\n", "invalid_utf8"),
    ];
    for (input, class) in fixed {
        for &format in FORMATS.iter() {
            rep.cover(&format!("input.{}", class));
            feed(case, rng, rep, format, false, input, class, "fixed");
            if format != Format::Jaspar {
                feed(case, rng, rep, format, true, input, class, "fixed");
            }
        }
    }
    // random bytes of several flavours
    for i in 0..400 {
        let n = rng.below(200);
        let input: Vec<u8> = match i % 4 {
            0 => (0..n).map(|_| rng.below(256) as u8).collect(),
            1 => (0..n).map(|_| *rng.pick(&BYTES)).collect(),
            2 => (0..n).map(|_| *rng.pick(b">ACGT[]: \t\n0123456789./XPDEVN")).collect(),
            _ => (0..n).map(|_| if rng.chance(0.1) { rng.below(256) as u8 } else { *rng.pick(b"ACGT 0123\n\t>:[]") }).collect(),
        };
        let class = if std::str::from_utf8(&input).is_err() { "invalid_utf8" } else { "random_bytes" };
        rep.cover(&format!("input.{}", class));
        for &format in FORMATS.iter() {
            feed(case, rng, rep, format, i % 8 == 7 && format != Format::Jaspar, &input, class, "random");
        }
    }
}

const TEST_FILES: [(&str, Format); 8] = [
    ("/repo/lightmotif-io/tests/MA0001.3.pfm", Format::Jaspar16),
    ("/repo/lightmotif-io/tests/MA0017.3.pfm", Format::Jaspar16),
    ("/repo/lightmotif-io/tests/M00005.transfac", Format::Transfac),
    ("/repo/lightmotif-io/tests/MA0001.2.transfac", Format::Transfac),
    ("/repo/lightmotif-io/tests/MX000001.transfac", Format::Transfac),
    ("/repo/lightmotif-io/tests/Cha4.uniprobe", Format::Uniprobe),
    ("/repo/lightmotif-io/tests/Gal4.uniprobe", Format::Uniprobe),
    ("/repo/lightmotif-io/tests/demo.uniprobe", Format::Uniprobe),
];

pub fn run(cfg: &Config) -> Report {
    let n_fixed = 1u64;
    let n_files = TEST_FILES.len() as u64;
    let n_gen = cfg.n(32, 200) as u64;
    run_cases(cfg, n_fixed + n_files + n_gen, |case, rng, rep| {
        if case < n_fixed {
            fixed_inputs(case, rng, rep);
        } else if case < n_fixed + n_files {
            let (path, format) = TEST_FILES[(case - n_fixed) as usize];
            match std::fs::read(path) {
                Ok(mut text) => {
                    // bundled files can be long: keep the first ~1500 bytes cut at a line boundary
                    if text.len() > 1500 {
                        let cut = text[..1500].iter().rposition(|&b| b == b'\n').map(|p| p + 1).unwrap_or(1500);
                        text.truncate(cut);
                    }
                    derive_and_feed(case, rng, rep, cfg, format, false, &text, path)
                }
                Err(e) => rep.harness_errors.push(format!("cannot read {}: {}", path, e)),
            }
        } else {
            let format = FORMATS[(case % 4) as usize];
            let protein = format != Format::Jaspar && rng.chance(0.25);
            let nrec = rng.range(1, 3);
            let f = gen_file(rng, format, protein, nrec);
            let mut text = f.text;
            if text.len() > 1200 {
                // keep derived inputs small: regenerate with one record
                text = gen_file(rng, format, protein, 1).text;
            }
            derive_and_feed(case, rng, rep, cfg, format, protein, &text, "generated");
            rep.sample(|| {
                J::obj()
                    .set("case", J::UInt(case))
                    .set("format", J::s(format.name()))
                    .set("protein", J::Bool(protein))
                    .set("base_file", J::s(String::from_utf8_lossy(&text[..text.len().min(300)]).to_string()))
                    .set("base_len", J::u(text.len()))
            });
        }
    })
}
