//! C15 - motif file readers never panic or hang on malformed input.
use std::io::Cursor;

use crate::common::*;
use crate::iogen::*;
use crate::json::J;
use crate::rng::Rng;

pub const RULE: &str = "case = one valid base file (generated with 1..3 records, or a bundled test file) of one format, from which malformed inputs are derived: EVERY prefix, single-byte substitution / deletion / insertion at every offset (quick: 3 sampled (operation, byte) pairs per offset; thorough: all) with bytes from {'>','[',']',':','/',tab,space,LF,CR,digit,letter,0x00,0x80,0xFF}, byte-order marks / stray terminators / NUL / blank lines in front of complete, unterminated and truncated bodies (with and without trailing junk), dropped final newline, ragged rows, over-long lines (the tokens of a line repeated 2-8 times), header without matrix, matrix without header, huge numbers, duplicated symbol rows; plus fixed inputs (empty, whitespace, random bytes, invalid UTF-8, a short unit such as `VV\n//\n`, `>`, a blank line repeated 3 / 300 / 60 000 times, every two-character tag in front of a TRANSFAC line). Each input is given to the reader of its format (1 in 4 also to the three other readers) through a Cursor or a random chunking schedule (BufReader capacity 1..300, short reads, injected Interrupted). Oracle: Reader::new and every next() run under catch_unwind (panic = violation); the consumer stops at the first Err / None and may receive at most (input length + 2) records; a reader polling end-of-input more than 10000 times is a livelock (decided on logical steps, not on the clock). Non-trivial = input that differs from its base file; distinct = distinct (format reader, input bytes).";

pub const REQUIRED: &[&str] = &[
    "reader.jaspar", "reader.jaspar16", "reader.transfac", "reader.uniprobe", "reader.protein", "reader.user_defined_40_symbols", "input.empty",
    "input.prefix", "input.substitution", "input.deletion", "input.insertion", "input.multibyte_insertion", "input.framing", "input.no_final_newline",
    "input.ragged", "input.long_line", "input.repetition", "input.repetition_after_record", "input.invalid_utf8_after_record", "input.tag_sweep", "input.header_only", "input.matrix_only", "input.huge_number", "input.duplicate_symbol",
    "input.random_bytes", "input.invalid_utf8", "outcome.error", "outcome.records", "schedule.chunked",
    "schedule.cursor", "cross_format",
];

// --- step-bounded execution ---------------------------------------------------------------------
// Every reader call runs on a worker thread. Termination is decided on the CPU time the worker
// consumed (work done), not on the clock: a reader that has burnt HANG_CPU_S seconds of CPU on an
// input of at most a few kilobytes (normal cost: microseconds) is not going to return. The wall
// clock is only the trigger for looking at the CPU counter; a starved worker is inconclusive.

const POLL_WALL_S: u64 = 10;
const HANG_CPU_S: f64 = 8.0;
const GIVE_UP_WALL_S: u64 = 600;

struct Job {
    format: Format,
    protein: bool,
    input: Vec<u8>,
    sched: Option<Schedule>,
}

struct JobResult {
    res: Result<Outcome, String>,
    polled: u64,
}

struct Worker {
    tx: std::sync::mpsc::Sender<Job>,
    rx: std::sync::mpsc::Receiver<JobResult>,
    tid: u64,
}

fn thread_cpu_seconds(tid: u64) -> Option<f64> {
    let stat = std::fs::read_to_string(format!("/proc/self/task/{}/stat", tid)).ok()?;
    let rest = &stat[stat.rfind(')')? + 2..];
    let f: Vec<&str> = rest.split_whitespace().collect();
    // fields after the command name: state is index 0, utime index 11, stime index 12
    let ticks = f.get(11)?.parse::<f64>().ok()? + f.get(12)?.parse::<f64>().ok()?;
    Some(ticks / 100.0)
}

impl Worker {
    fn new() -> Worker {
        let (tx, jrx) = std::sync::mpsc::channel::<Job>();
        let (rtx, rx) = std::sync::mpsc::channel::<JobResult>();
        let (ttx, trx) = std::sync::mpsc::channel::<u64>();
        std::thread::Builder::new()
            // the default stack of a Rust thread (2 MiB): what a library call may rely on
            .stack_size(2 << 20)
            .spawn(move || {
                let tid = std::fs::read_to_string("/proc/thread-self/stat")
                    .ok()
                    .and_then(|s| s.split_whitespace().next().and_then(|t| t.parse::<u64>().ok()))
                    .unwrap_or(0);
                let _ = ttx.send(tid);
                while let Ok(job) = jrx.recv() {
                    let mut polled = 0u64;
                                    let res = match &job.sched {
                        None => guard(|| read_all(job.format, job.protein, Cursor::new(&job.input[..]), job.input.len())),
                        Some(s) => {
                            let (b, counters) = chunked(&job.input, s);
                            let r = guard(|| read_all(job.format, job.protein, b, job.input.len()));
                            polled = counters.eof_reads.get();
                            r
                        }
                    };
                    if rtx.send(JobResult { res, polled }).is_err() {
                        break;
                    }
                }
            })
            .expect("cannot spawn the reader worker");
        let tid = trx.recv().unwrap_or(0);
        Worker { tx, rx, tid }
    }
}

enum Ran {
    Done(JobResult),
    /// the worker consumed this many CPU seconds without returning
    Hang(f64),
    Starved,
}

fn run_job(worker: &mut Worker, job: Job) -> Ran {
    let cpu0 = thread_cpu_seconds(worker.tid).unwrap_or(0.0);
    if worker.tx.send(job).is_err() {
        return Ran::Starved;
    }
    let t0 = std::time::Instant::now();
    loop {
        match worker.rx.recv_timeout(std::time::Duration::from_secs(POLL_WALL_S)) {
            Ok(r) => return Ran::Done(r),
            Err(std::sync::mpsc::RecvTimeoutError::Disconnected) => return Ran::Starved,
            Err(std::sync::mpsc::RecvTimeoutError::Timeout) => {
                let used = thread_cpu_seconds(worker.tid).unwrap_or(0.0) - cpu0;
                if used >= HANG_CPU_S {
                    // abandon the spinning thread (it cannot be stopped) and continue on a fresh worker
                    *worker = Worker::new();
                    return Ran::Hang(used);
                }
                if t0.elapsed().as_secs() > GIVE_UP_WALL_S {
                    *worker = Worker::new();
                    return Ran::Starved;
                }
            }
        }
    }
}

const BYTES: [u8; 16] = [b'>', b'[', b']', b':', b'/', b'\t', b' ', b'\n', b'\r', b'7', b'A', b'N', 0x00, 0x80, 0xFF, b'.'];

/// number of hangs seen by this process: after two the verdict stands and no further input is fed
/// (every abandoned worker keeps a core busy until the process exits)
static HANGS: std::sync::atomic::AtomicUsize = std::sync::atomic::AtomicUsize::new(0);

fn feed(worker: &mut Worker, case: u64, rng: &mut Rng, rep: &mut Report, format: Format, protein: bool, input: &[u8], class: &str, base_label: &str) {
    if HANGS.load(std::sync::atomic::Ordering::Relaxed) >= 2 {
        return;
    }
    rep.eval();
    rep.cover(&format!("reader.{}", format.name()));
    if protein {
        rep.cover("reader.protein");
    }
    let mut d = Digest::new();
    d.bytes(format.name().as_bytes()).u(protein as u64).bytes(input);
    rep.nontrivial(d.get());
    let use_cursor = rng.chance(0.4);
    let sched = Schedule {
        capacity: if rng.chance(0.3) { 1 } else { 1 + rng.below(300) },
        max_chunk: if rng.chance(0.3) { 1 } else { rng.below(200) },
        interrupt: if rng.chance(0.3) { 0.2 } else { 0.0 },
        seed: rng.next_u64(),
    };
    rep.cover(if use_cursor { "schedule.cursor" } else { "schedule.chunked" });
    let ran = run_job(worker, Job { format, protein, input: input.to_vec(), sched: if use_cursor { None } else { Some(sched) } });
    let wit = || {
        J::obj()
            .set("reader", J::s(format.name()))
            .set("protein", J::Bool(protein))
            .set("class", J::s(class))
            .set("derived_from", J::s(base_label))
            .set("schedule", if use_cursor { J::s("Cursor") } else { J::s(format!("{:?}", sched)) })
            .set("input_len", J::u(input.len()))
            .set("input_lossy", J::s(String::from_utf8_lossy(&input[..input.len().min(400)]).to_string()))
            .set("input_bytes", J::Arr(input.iter().take(400).map(|&b| J::u(b as usize)).collect()))
    };
    let (res, polled) = match ran {
        Ran::Done(r) => (r.res, r.polled),
        Ran::Hang(cpu) => {
            HANGS.fetch_add(1, std::sync::atomic::Ordering::Relaxed);
            rep.violate(
                "c15.hang",
                case,
                format!("{} reader did not return on a {} input of {} bytes after consuming {:.1} s of CPU time (normal cost: microseconds): a consumer of this reader never terminates", format.name(), class, input.len(), cpu),
                wit(),
            );
            return;
        }
        Ran::Starved => {
            rep.harness_errors.push(format!("reader worker got no CPU for {} s on a {} byte input: inconclusive", GIVE_UP_WALL_S, input.len()));
            return;
        }
    };
    match res {
        Err(p) => rep.violate(
            &format!("c15.panic:{}", panic_site(&p)),
            case,
            format!("{} reader panicked on a {} input: {}", format.name(), class, p),
            wit(),
        ),
        Ok(Outcome::Runaway(n)) => rep.violate(
            "c15.runaway",
            case,
            format!("{} reader returned {} records for {} bytes: a consumer stopping at the first error or end of input would not terminate", format.name(), n, input.len()),
            wit(),
        ),
        Ok(Outcome::Error(_, _)) => rep.cover("outcome.error"),
        Ok(Outcome::Records(_)) => rep.cover("outcome.records"),
    }
    if polled > EOF_POLL_LIMIT {
        rep.violate(
            "c15.livelock",
            case,
            format!("{} reader polled the end of input more than {} times", format.name(), EOF_POLL_LIMIT),
            wit(),
        );
    }
}

fn derive_and_feed(case: u64, rng: &mut Rng, rep: &mut Report, cfg: &Config, format: Format, protein: bool, base: &[u8], label: &str) {
    let others: Vec<Format> = FORMATS.iter().cloned().filter(|f| *f != format).collect();
    let mut worker = Worker::new();
    let mut send = |rng: &mut Rng, rep: &mut Report, input: &[u8], class: &str| {
        rep.cover(&format!("input.{}", class));
        feed(&mut worker, case, rng, rep, format, protein, input, class, label);
        if rng.chance(0.25) {
            rep.cover("cross_format");
            let f = *rng.pick(&others);
            feed(&mut worker, case, rng, rep, f, protein && f != Format::Jaspar, input, class, label);
        }
    };
    // the base file itself must be fine
    send(rng, rep, base, "valid_base");
    // every prefix
    for n in 0..base.len() {
        send(rng, rep, &base[..n], "prefix");
    }
    // no final newline
    if base.last() == Some(&b'\n') {
        send(rng, rep, &base[..base.len() - 1], "no_final_newline");
    }
    // single-byte edits at every offset
    // thorough: every (operation, byte) pair at every offset of small files, 12 sampled pairs otherwise
    let exhaustive_edits = cfg.thorough() && base.len() <= 500;
    let per_offset = if exhaustive_edits { BYTES.len() * 3 } else if cfg.thorough() { 12 } else { 3 };
    let mut buf: Vec<u8> = Vec::with_capacity(base.len() + 1);
    for off in 0..base.len() {
        for e in 0..per_offset {
            let (op, b) = if exhaustive_edits { (e % 3, BYTES[e / 3]) } else { (rng.below(3), *rng.pick(&BYTES)) };
            buf.clear();
            match op {
                0 => {
                    if base[off] == b {
                        continue;
                    }
                    buf.extend_from_slice(base);
                    buf[off] = b;
                    send(rng, rep, &buf, "substitution");
                }
                1 => {
                    buf.extend_from_slice(&base[..off]);
                    buf.extend_from_slice(&base[off + 1..]);
                    send(rng, rep, &buf, "deletion");
                }
                _ => {
                    buf.extend_from_slice(&base[..off]);
                    buf.push(b);
                    buf.extend_from_slice(&base[off..]);
                    send(rng, rep, &buf, "insertion");
                }
            }
        }
    }
    // a multi-byte character (valid UTF-8, 2 / 3 / 4 bytes) inserted at every offset, also overwriting
    // the byte that follows: character boundaries no longer coincide with the byte offsets a parser assumes
    const MULTI: [&str; 4] = ["\u{e9}", "\u{20ac}", "\u{1d11e}", "\u{3b2}"];
    for off in 0..=base.len() {
        if std::str::from_utf8(&base[..off]).is_err() {
            continue;
        }
        let ch = if cfg.thorough() { MULTI[off % 4] } else { *rng.pick(&MULTI) };
        buf.clear();
        buf.extend_from_slice(&base[..off]);
        buf.extend_from_slice(ch.as_bytes());
        let skip = if rng.chance(0.5) { 0 } else { 1 };
        if off + skip <= base.len() && std::str::from_utf8(&base[off + skip..]).is_ok() {
            buf.extend_from_slice(&base[off + skip..]);
            send(rng, rep, &buf, "multibyte_insertion");
        }
    }
    // framing: byte-order marks and other leading junk in front of complete, unterminated and
    // truncated bodies, with and without trailing junk (a reader that strips or skips a prefix must
    // keep every offset it computed before consistent)
    const PREFIXES: [&[u8]; 9] = [b"\xEF\xBB\xBF", b"\xFF\xFE", b"\xFE\xFF", b"\r\n", b"\n\n", b"\0", b"//\n", b"XX\n", b">"];
    const SUFFIXES: [&[u8]; 6] = [b"", b"//", b"//\n", b"\r", b">", b"\x1a"];
    for pre in PREFIXES.iter() {
        let mut cuts: Vec<usize> = vec![base.len(), base.len().saturating_sub(1), 0];
        if cfg.thorough() && base.len() <= 500 {
            cuts.extend(0..base.len());
        } else {
            for _ in 0..8 {
                cuts.push(rng.below(base.len() + 1));
            }
            // cuts right after a line end and right before one
            let nl: Vec<usize> = (0..base.len()).filter(|&i| base[i] == b'\n').collect();
            for _ in 0..4 {
                if !nl.is_empty() {
                    let i = *rng.pick(&nl);
                    cuts.push(i);
                    cuts.push(i + 1);
                }
            }
        }
        for cut in cuts {
            for si in 0..2 {
                let suf: &[u8] = if si == 0 { b"" } else { *rng.pick(&SUFFIXES) };
                if si == 1 && suf.is_empty() {
                    continue;
                }
                buf.clear();
                buf.extend_from_slice(pre);
                buf.extend_from_slice(&base[..cut]);
                buf.extend_from_slice(suf);
                send(rng, rep, &buf, "framing");
            }
        }
    }
    // structural damage on the line level
    let text = String::from_utf8_lossy(base).to_string();
    let lines: Vec<&str> = text.split_inclusive('\n').collect();
    if lines.len() >= 3 {
        // ragged: drop the last token of one matrix line / add one token
        for _ in 0..6 {
            let li = rng.below(lines.len());
            let mut toks: Vec<&str> = lines[li].trim_end_matches('\n').split(' ').collect();
            if toks.len() >= 2 {
                if rng.chance(0.5) {
                    toks.pop();
                } else {
                    toks.push("7");
                }
                let mut t = String::new();
                for (i, l) in lines.iter().enumerate() {
                    if i == li {
                        t.push_str(&toks.join(" "));
                        t.push('\n');
                    } else {
                        t.push_str(l);
                    }
                }
                send(rng, rep, t.as_bytes(), "ragged");
            }
        }
        // over-long lines: the tokens of one line repeated (an alphabet line listing more symbols
        // than the alphabet has, a matrix row with several times the expected cells)
        for _ in 0..8 {
            let li = rng.below(lines.len());
            let body = lines[li].trim_end_matches('\n');
            let toks: Vec<&str> = body.split_whitespace().collect();
            if toks.is_empty() {
                continue;
            }
            let reps = rng.range(2, 8);
            let sep = *rng.pick(&[" ", "      ", "\t"]);
            let mut long = String::new();
            for r in 0..reps {
                for (ti, t) in toks.iter().enumerate() {
                    // keep the line's leading tag (first token) once
                    if r > 0 && ti == 0 && toks.len() > 1 {
                        continue;
                    }
                    if !long.is_empty() {
                        long.push_str(sep);
                    }
                    long.push_str(t);
                }
            }
            let mut t = String::new();
            for (i, l) in lines.iter().enumerate() {
                if i == li {
                    t.push_str(&long);
                    t.push('\n');
                } else {
                    t.push_str(l);
                }
            }
            send(rng, rep, t.as_bytes(), "long_line");
        }
        // header only / matrix only
        send(rng, rep, lines[0].as_bytes(), "header_only");
        let t: String = lines[1..].concat();
        send(rng, rep, t.as_bytes(), "matrix_only");
        // duplicated line (duplicate symbol row / header)
        for _ in 0..4 {
            let li = rng.below(lines.len());
            let mut t = String::new();
            for (i, l) in lines.iter().enumerate() {
                t.push_str(l);
                if i == li {
                    t.push_str(l);
                }
            }
            send(rng, rep, t.as_bytes(), "duplicate_symbol");
        }
        // removed line
        for _ in 0..4 {
            let li = rng.below(lines.len());
            let t: String = lines.iter().enumerate().filter(|(i, _)| *i != li).map(|(_, l)| *l).collect();
            send(rng, rep, t.as_bytes(), "ragged");
        }
    }
    // special numbers: replace digit runs (the first one and several random ones; a run may be a
    // matrix cell, a row label, part of an identifier) by overflowing / non-finite / negative tokens
    let starts: Vec<usize> = (0..base.len()).filter(|&i| base[i].is_ascii_digit() && (i == 0 || !(base[i - 1].is_ascii_digit() || base[i - 1] == b'.'))).collect();
    if !starts.is_empty() {
        let mut chosen = vec![starts[0]];
        for _ in 0..6 {
            chosen.push(*rng.pick(&starts));
        }
        for p in chosen {
            let mut end = p;
            while end < base.len() && (base[end].is_ascii_digit() || base[end] == b'.') {
                end += 1;
            }
            for big in ["99999999999999999999999999", "4294967296", "4294967295", "4294967290", "1e400", "1e39", "-5", "0.0000000000000000000000000000000000000000000001", "NaN", "nan", "inf", "-inf", "infinity"] {
                let mut t = base[..p].to_vec();
                t.extend_from_slice(big.as_bytes());
                t.extend_from_slice(&base[end..]);
                send(rng, rep, &t, "huge_number");
            }
            // two non-finite cells in one record (inf and -inf may cancel to NaN in a row sum)
            if let Some(&q) = starts.iter().find(|&&q| q > end) {
                let mut qe = q;
                while qe < base.len() && (base[qe].is_ascii_digit() || base[qe] == b'.') {
                    qe += 1;
                }
                let mut t = base[..p].to_vec();
                t.extend_from_slice(b"inf");
                t.extend_from_slice(&base[end..q]);
                t.extend_from_slice(b"-inf");
                t.extend_from_slice(&base[qe..]);
                send(rng, rep, &t, "huge_number");
            }
        }
    }
}

fn fixed_inputs(case: u64, rng: &mut Rng, rep: &mut Report) {
    let mut worker = Worker::new();
    let fixed: Vec<(&[u8], &str)> = vec![
        (b"", "empty"),
        (b" ", "empty"),
        (b"\n", "empty"),
        (b"\n\n \t\n", "empty"),
        (b">", "header_only"),
        (b">\n", "header_only"),
        (b">x", "header_only"),
        (b">x\n", "header_only"),
        (b">x\n1 2 3\n1 2\n1 2 3\n1 2 3\n", "ragged"),
        (b">x\n1 2 3\n1 2 3\n1 2 3\n", "ragged"),
        (b">x\nA [1 2 3]\nC [1 2]\nG [1 2 3]\nT [1 2 3]\n", "ragged"),
        (b">x\nA [1 2 3]\nA [1 2 3]\n", "duplicate_symbol"),
        (b"AC x\nP0  ", "prefix"),
        (b"AC x\nP0", "prefix"),
        (b"P0      A      C      G      T\n", "matrix_only"),
        (b"AC x\nP0      A      C      G      T\n01 1 2\n//\n", "ragged"),
        (b"//\n", "header_only"),
        (b"//", "header_only"),
        (b"VV x\n", "header_only"),
        (b"VV", "header_only"),
        (b"XX\nXX\n", "header_only"),
        (b"hello\n", "header_only"),
        (b"hello", "header_only"),
        (b"hello\nA:\t0.5\n", "ragged"),
        (b"hello\nA:\t0.25\nC:\t0.25\nG:\t0.25\nT:\t0.25", "no_final_newline"),
        (b"A:\t0.25\nC:\t0.25\nG:\t0.25\nT:\t0.25\n", "matrix_only"),
        // the largest legal count in every cell of a position (the row total is above 2^32)
        (b">x\nA [4294967295 1]\nC [4294967295 1]\nG [4294967295 1]\nT [4294967295 1]\n", "huge_number"),
        (b">x\n4294967295 1\n4294967295 1\n4294967295 1\n4294967295 1\n", "huge_number"),
        (b"AC x\nXX\nP0      A      C      G      T\n01 4294967295 4294967295 4294967295 4294967295 N\nXX\n//\n", "huge_number"),
        (b"\xff\xfe\xfd", "invalid_utf8"),
        (b">x\xff\n1 2\n1 2\n1 2\n1 2\n", "invalid_utf8"),
        (b"AC \xc3\x28\nXX\n//\n", "invalid_utf8"),
        (b"id\xf0\x28\x8c\x28\nA:\t1\n", "invalid_utf8"),
    ];
    for (input, class) in fixed {
        for &format in FORMATS.iter() {
            rep.cover(&format!("input.{}", class));
            feed(&mut worker, case, rng, rep, format, false, input, class, "fixed");
            if format != Format::Jaspar {
                feed(&mut worker, case, rng, rep, format, true, input, class, "fixed");
            }
        }
    }
    // runs of bytes that are not UTF-8 after a complete record (and before the next one)
    {
        let records: [(&[u8], Format); 4] = [
            (b">w\nA [1 2]\nC [1 2]\nG [1 2]\nT [1 2]\n", Format::Jaspar16),
            (b">w\n1 2\n1 2\n1 2\n1 2\n", Format::Jaspar),
            (b"AC x\nXX\nP0      A      C      G      T\n01 1 2 3 4 N\nXX\n//\n", Format::Transfac),
            (b"w\nA:\t0.25\t0.25\nC:\t0.25\t0.25\nG:\t0.25\t0.25\nT:\t0.25\t0.25\n", Format::Uniprobe),
        ];
        for (rec, format) in records.iter() {
            for junk in [&b"\xff"[..], b"\x80", b"\xc3", b"\xe2\x82", b"\xf0\x9f\x98"] {
                for &n in [1usize, 5, 20, 60, 200].iter() {
                    for tail in [false, true] {
                        let mut input = rec.to_vec();
                        for _ in 0..n {
                            input.extend_from_slice(junk);
                        }
                        if tail {
                            input.extend_from_slice(b"\n");
                            input.extend_from_slice(rec);
                        }
                        rep.cover("input.invalid_utf8_after_record");
                        feed(&mut worker, case, rng, rep, *format, false, &input, "invalid_utf8", "fixed");
                    }
                }
            }
        }
    }
    // a short unit repeated many times: one call may have to get past all of them, which has to be
    // done in constant stack space (a reader that recurses once per skipped block overflows)
    {
        const UNITS: [&[u8]; 12] = [b"VV\n//\n", b"VV x\nXX\n//\n", b"//\n", b"XX\n", b"\n", b">\n", b">", b"> x\n", b"#\n", b"A:\n", b" \n", b"\r\n"];
        for unit in UNITS.iter() {
            for &n in [3usize, 300, 60_000, 70_000].iter() {
                let mut input = Vec::with_capacity(unit.len() * n + 128);
                if n == 70_000 || rng.chance(0.3) {
                    // a complete record first: the units then stand BETWEEN two records (or after the last)
                    input.extend_from_slice(b">w\nA [1 2]\nC [1 2]\nG [1 2]\nT [1 2]\n");
                    rep.cover("input.repetition_after_record");
                }
                for _ in 0..n {
                    input.extend_from_slice(unit);
                }
                if rng.chance(0.5) {
                    input.extend_from_slice(b">x\nA [1 2]\nC [1 2]\nG [1 2]\nT [1 2]\n");
                }
                rep.cover("input.repetition");
                for &format in FORMATS.iter() {
                    feed(&mut worker, case, rng, rep, format, false, &input, "repetition", "fixed");
                }
            }
        }
    }
    // every two-character tag in front of a TRANSFAC line (field tags known to the parser must all
    // be handled, unknown ones must be rejected or skipped - never `unreachable!()`)
    {
        const TAGCH: &[u8] = b"ABCDEFGHIJKLMNOPQRSTUVWXYZ0123456789";
        let body = b"AC  M00001\nXX\nID  V$X\nXX\nP0      A      C      G      T\n01      1      2      3      4      N\n02      4      3      2      1      N\nXX\n//\n";
        for &a in TAGCH.iter() {
            for &b in TAGCH.iter() {
                // as an extra field line before the matrix, and in place of the first tag
                let mut v1 = Vec::with_capacity(body.len() + 16);
                v1.extend_from_slice(&[a, b]);
                v1.extend_from_slice(b"  some text; 12.\n");
                v1.extend_from_slice(body);
                let mut v2 = body.to_vec();
                v2[0] = a;
                v2[1] = b;
                rep.cover("input.tag_sweep");
                feed(&mut worker, case, rng, rep, Format::Transfac, false, &v1, "tag_sweep", "fixed");
                feed(&mut worker, case, rng, rep, Format::Transfac, false, &v2, "tag_sweep", "fixed");
            }
        }
    }
    // random bytes of several flavours
    for i in 0..400 {
        let n = rng.below(200);
        let input: Vec<u8> = match i % 4 {
            0 => (0..n).map(|_| rng.below(256) as u8).collect(),
            1 => (0..n).map(|_| *rng.pick(&BYTES)).collect(),
            2 => (0..n).map(|_| *rng.pick(b">ACGT[]: \t\n0123456789./XPDEVN")).collect(),
            _ => (0..n).map(|_| if rng.chance(0.1) { rng.below(256) as u8 } else { *rng.pick(b"ACGT 0123\n\t>:[]") }).collect(),
        };
        let class = if std::str::from_utf8(&input).is_err() { "invalid_utf8" } else { "random_bytes" };
        rep.cover(&format!("input.{}", class));
        for &format in FORMATS.iter() {
            feed(&mut worker, case, rng, rep, format, i % 8 == 7 && format != Format::Jaspar, &input, class, "random");
        }
    }
}

const TEST_FILES: [(&str, Format); 8] = [
    ("/repo/lightmotif-io/tests/MA0001.3.pfm", Format::Jaspar16),
    ("/repo/lightmotif-io/tests/MA0017.3.pfm", Format::Jaspar16),
    ("/repo/lightmotif-io/tests/M00005.transfac", Format::Transfac),
    ("/repo/lightmotif-io/tests/MA0001.2.transfac", Format::Transfac),
    ("/repo/lightmotif-io/tests/MX000001.transfac", Format::Transfac),
    ("/repo/lightmotif-io/tests/Cha4.uniprobe", Format::Uniprobe),
    ("/repo/lightmotif-io/tests/Gal4.uniprobe", Format::Uniprobe),
    ("/repo/lightmotif-io/tests/demo.uniprobe", Format::Uniprobe),
];

pub fn run(cfg: &Config) -> Report {
    let n_fixed = 1u64;
    let n_files = TEST_FILES.len() as u64;
    let n_gen = cfg.n(32, 200) as u64;
    run_cases(cfg, n_fixed + n_files + n_gen, |case, rng, rep| {
        if case < n_fixed {
            fixed_inputs(case, rng, rep);
            crate::iowide::never_panics(case, rng, rep);
        } else if case < n_fixed + n_files {
            let (path, format) = TEST_FILES[(case - n_fixed) as usize];
            match std::fs::read(path) {
                Ok(mut text) => {
                    // bundled files can be long: keep the first ~1500 bytes cut at a line boundary
                    if text.len() > 1500 {
                        let cut = text[..1500].iter().rposition(|&b| b == b'\n').map(|p| p + 1).unwrap_or(1500);
                        text.truncate(cut);
                    }
                    derive_and_feed(case, rng, rep, cfg, format, false, &text, path)
                }
                Err(e) => rep.harness_errors.push(format!("cannot read {}: {}", path, e)),
            }
        } else {
            let format = FORMATS[(case % 4) as usize];
            let protein = format != Format::Jaspar && rng.chance(0.25);
            let nrec = rng.range(1, 3);
            let f = gen_file(rng, format, protein, nrec);
            let mut text = f.text;
            if text.len() > 1200 {
                // keep derived inputs small: regenerate with one record
                text = gen_file(rng, format, protein, 1).text;
            }
            derive_and_feed(case, rng, rep, cfg, format, protein, &text, "generated");
            rep.sample(|| {
                J::obj()
                    .set("case", J::UInt(case))
                    .set("format", J::s(format.name()))
                    .set("protein", J::Bool(protein))
                    .set("base_file", J::s(String::from_utf8_lossy(&text[..text.len().min(300)]).to_string()))
                    .set("base_len", J::u(text.len()))
            });
        }
    })
}
