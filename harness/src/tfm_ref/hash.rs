//! Fast hasher implementation dedicated to `i64` keys.
//!
//! Extracted from the [`intmap`](https://github.com/JesperAxelsson/rust-intmap)
//! crate by Jasper Axelsson.

use std::hash::BuildHasher;
use std::hash::Hasher;

#[derive(Debug, Default, Clone)]
pub struct IntHasher {
    state: u64,
}

impl Hasher for IntHasher {
    fn finish(&self) -> u64 {
        self.state
    }

    #[allow(unused)]
    fn write(&mut self, bytes: &[u8]) {
        unreachable!("this hasher should only be used with i64 keys")
    }

    fn write_i64(&mut self, i: i64) {
        self.state = 11400714819323198549u64.wrapping_mul(i as u64);
    }
}

#[derive(Debug, Default, Clone)]
pub struct IntHasherBuilder;

impl BuildHasher for IntHasherBuilder {
    type Hasher = IntHasher;
    fn build_hasher(&self) -> Self::Hasher {
        IntHasher::default()
    }
}
