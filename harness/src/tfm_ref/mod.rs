//! FROZEN COPY of lightmotif-tfmpvalue/src/lib.rs (at the repaired tree, /repo commit ec19da0), used
//! ONLY to evaluate the signature of the known finding KF-C13-exhausted-window-converges: a
//! lower-side failure on a converged iteration is "the inherent window limitation of the reference
//! algorithm" iff this copy reproduces the library's iterations exactly. It is never an oracle.
#![allow(dead_code, unused)]

use std::cmp::Ordering;
use std::collections::HashMap;
use std::fmt::Debug;
use std::ops::RangeInclusive;

use lightmotif::abc::Alphabet;
use lightmotif::dense::DenseMatrix;
use lightmotif::num::Unsigned;
use lightmotif::pwm::ScoringMatrix;

mod hash;

/// The fast integer map type used to record *Q*-values and *p*-values.
pub type IntMap<V> = HashMap<i64, V, self::hash::IntHasherBuilder>;

/// The TFM-PVALUE algorithm.
#[derive(Debug)]
pub struct TfmPvalue<A: Alphabet, M: AsRef<ScoringMatrix<A>>> {
    /// A reference to the original scoring matrix.
    matrix: M,
    /// A permutation of the original matrix rows.
    permutation: Vec<usize>,
    /// The granularity with which the round matrix has been built.
    granularity: f64,
    /// The round matrix offsets.
    offsets: Vec<i64>,
    /// Rescaled PSSM in integer space.
    int_matrix: DenseMatrix<i64, A::K>,
    /// The maximum error caused by integer rescale.
    error_max: f64,
    /// The maximum integer score reachable at each row of the matrix.
    max_score_rows: Vec<i64>,
    /// The minimum integer score reachable at each row of the matrix.
    min_score_rows: Vec<i64>,
    /// The Q-values for the current granularity
    qvalues: Vec<IntMap<f64>>,
}

#[allow(non_snake_case)]
impl<A: Alphabet, M: AsRef<ScoringMatrix<A>>> TfmPvalue<A, M> {
    /// Initialize the TFM-PVALUE algorithm for the given scoring matrix.
    pub fn new(matrix: M) -> Self {
        let m = matrix.as_ref();
        let M = m.len();

        // Compute the column permutation by decreasing score range
        // over each row to minimize the total size of score ranges
        // (see TFM-PVALUE paper, Lemma 7).
        let range = (0..M)
            .map(|i| {
                let row = &m[i][..A::K::USIZE - 1];
                let max_score = row.iter().cloned().reduce(f32::max).unwrap_or_default();
                let min_score = row.iter().cloned().reduce(f32::min).unwrap_or_default();
                max_score - min_score
            })
            .collect::<Vec<_>>();
        let mut permutation: Vec<usize> = (0..M).collect();
        permutation.sort_unstable_by(|i, j| range[*j].partial_cmp(&range[*i]).unwrap());

        Self {
            granularity: f64::NAN,
            matrix,
            permutation,
            offsets: vec![0; M],
            int_matrix: DenseMatrix::new(M),
            max_score_rows: vec![0; M],
            min_score_rows: vec![0; M],
            qvalues: vec![IntMap::default(); M + 1],
            error_max: 0.0,
        }
    }

    /// Return a reference to the wrapped matrix reference.
    pub fn as_inner(&self) -> &M {
        &self.matrix
    }

    /// Extract the wrapped matrix reference.
    pub fn into_inner(self) -> M {
        self.matrix
    }

    /// Compute the approximate score matrix with the given granularity.
    fn recompute(&mut self, granularity: f64) {
        assert!(granularity < 1.0);
        let matrix = self.matrix.as_ref();
        let M: usize = matrix.len();
        let K: usize = <A as Alphabet>::K::USIZE;

        // compute effective granularity
        self.granularity = granularity;

        // compute integer matrix using optimal column permutation
        for (i, &p) in self.permutation.iter().enumerate() {
            for j in 0..K - 1 {
                self.int_matrix[i][j] = (matrix[p][j] as f64 / self.granularity).floor() as i64;
            }
        }

        // compute maximum error by summing max error at each row
        self.error_max = 0.0;
        for i in 1..M {
            let max_e = matrix[self.permutation[i]][..K - 1]
                .iter()
                .enumerate()
                .map(|(j, &x)| (x as f64) / self.granularity - self.int_matrix[i][j] as f64)
                .max_by(|x, y| x.partial_cmp(y).unwrap_or(Ordering::Less))
                .unwrap();
            self.error_max += max_e;
        }

        // compute offsets
        for i in 0..M {
            self.offsets[i] = -*self.int_matrix[i][..K - 1].iter().min().unwrap();
            for j in 0..K - 1 {
                self.int_matrix[i][j] += self.offsets[i];
            }
        }

        // look for the minimum score of the matrix for each row
        for i in 0..M {
            self.min_score_rows[i] = *self.int_matrix[i][..K - 1].iter().min().unwrap();
            self.max_score_rows[i] = *self.int_matrix[i][..K - 1].iter().max().unwrap();
        }
    }

    /// Compute the score distribution between `min` and `max`.
    ///
    /// The resulting distributions is stored in `self.qvalues`.
    fn distribution(&mut self, min: i64, max: i64) {
        // Clear Q-values
        for map in self.qvalues.iter_mut() {
            map.clear();
        }

        //
        let matrix = self.matrix.as_ref();
        let M: usize = matrix.len();
        let K: usize = <A as Alphabet>::K::USIZE;

        // background frequencies
        let bg = matrix.background().frequencies();

        // maximum score reachable with the suffix matrix from i to M-1
        let mut maxs = vec![0; M + 1];
        for i in (0..M).rev() {
            maxs[i] = maxs[i + 1] + self.max_score_rows[i];
        }

        // probability of a suffix of regular symbols starting at position i:
        // one, unless the background gives some frequency to the wildcard
        let regular = bg[..K - 1].iter().map(|&f| f as f64).sum::<f64>();
        let mut suffix = vec![1.0; M + 1];
        if bg[K - 1] > 0.0 {
            for i in (0..M).rev() {
                suffix[i] = suffix[i + 1] * regular;
            }
        }

        // initialize the map at first position with background frequencies
        for k in 0..K - 1 {
            if self.int_matrix[0][k] + maxs[1] >= min {
                *self.qvalues[0].entry(self.int_matrix[0][k]).or_default() += bg[k] as f64;
            }
        }

        // compute q values for scores greater or equal to min
        self.qvalues[M - 1].insert(max + 1, 0.0);
        for pos in 1..M {
            // get the matrix row at the current position
            let int_row = &self.int_matrix[pos];
            // split the array in two to make the borrow checker happy
            let (l, r) = self.qvalues.split_at_mut(pos);
            // iterate on every reachable score at the current position
            for (key, val) in &l[pos - 1] {
                for k in 0..K - 1 {
                    let sc = key + int_row[k];
                    if sc + maxs[pos + 1] >= min {
                        // the score min can be reached
                        let occ = val * bg[k] as f64;
                        if sc > max {
                            // the score will be greater than max for all suffixes
                            *r[M - 1 - pos].entry(max + 1).or_default() += occ * suffix[pos + 1];
                        } else {
                            *r[0].entry(sc).or_default() += occ;
                        }
                    }
                }
            }
        }
    }

    /// Search the p-value range for the given score.
    fn lookup_pvalue(&mut self, score: f64) -> RangeInclusive<f64> {
        assert!(!self.granularity.is_nan());
        let matrix = self.matrix.as_ref();
        let M: usize = matrix.len();

        // Compute the integer score range from the given score.
        let scaled = score / self.granularity + self.offsets.iter().sum::<i64>() as f64;
        let avg = scaled.floor() as i64;
        let max = (scaled + self.error_max + 1.0).floor() as i64;
        let min = (scaled - self.error_max - 1.0).floor() as i64;

        // Compute q values for the given scores
        self.distribution(min, max);

        // Compute p-values
        let mut pvalues = IntMap::default();
        let mut s = max + 1;
        let mut last = self.qvalues[M - 1].keys().cloned().collect::<Vec<i64>>();
        last.sort_unstable_by(|x, y| x.partial_cmp(y).unwrap());
        let mut sum = self.qvalues[M].get(&(max + 1)).cloned().unwrap_or_default();
        for &l in last.iter().rev() {
            sum += self.qvalues[M - 1][&l];
            if l >= avg {
                s = l;
            }
            pvalues.insert(l, sum);
        }

        // Find the p-value range for the requested score
        let mut keys = pvalues.keys().cloned().collect::<Vec<i64>>();
        keys.sort_unstable_by(|x, y| x.partial_cmp(y).unwrap());
        let mut kmax = keys.iter().position(|&k| k == s).unwrap();
        while kmax > 0 && keys[kmax] as f64 >= s as f64 - self.error_max {
            kmax -= 1;
        }

        // Return p-value range
        let pmax = pvalues[&keys[kmax]];
        let pmin = pvalues[&s];
        RangeInclusive::new(pmin, pmax)
    }

    /// Search the score and p-value range for a given p-value.
    fn lookup_score(
        &mut self,
        pvalue: f64,
        range: RangeInclusive<i64>,
    ) -> (i64, RangeInclusive<f64>) {
        assert!(!self.granularity.is_nan());
        let matrix = self.matrix.as_ref();
        let M: usize = matrix.len();

        // compute score range for target pvalue
        let min = *range.start();
        let max = *range.end();

        // compute q values
        self.distribution(min, max);
        let mut pvalues = IntMap::default();

        // find most likely scores at the end of the matrix
        let mut keys = self.qvalues[M - 1].keys().cloned().collect::<Vec<_>>();
        keys.sort_unstable_by(|x, y| x.partial_cmp(y).unwrap());

        // compute pvalues
        let mut sum = 0.0;
        let mut riter = keys.len() - 1;
        let alpha;
        let alpha_e;
        while riter > 0 {
            sum += self.qvalues[M - 1][&keys[riter]];
            pvalues.insert(keys[riter], sum);
            if sum >= pvalue {
                break;
            }
            riter -= 1;
        }

        if sum > pvalue {
            alpha_e = keys[riter];
            alpha = keys[riter + 1];
        } else {
            if riter == 0 {
                alpha = keys[0];
                alpha_e = keys[0];
            } else {
                alpha = keys[riter];
                alpha_e = keys[riter - 1];
                sum += pvalues.get(&alpha_e).cloned().unwrap_or_default();
            }
            pvalues.insert(alpha_e, sum);
        }

        if (alpha - alpha_e) as f64 > self.error_max {
            (alpha, RangeInclusive::new(pvalues[&alpha], pvalues[&alpha]))
        } else {
            (
                alpha,
                RangeInclusive::new(pvalues[&alpha_e], pvalues[&alpha]),
            )
        }
    }

    /// Compute the exact P-value for the given score.
    ///
    /// # Caution
    /// This method internally calls `approximate_pvalue` without bounds on
    /// the granularity, which may require a very large amount of memory for
    /// some scoring matrices. Use `approximate_pvalue` directly to add
    /// limits on the number of iterations or on the granularity.
    pub fn pvalue(&mut self, score: f64) -> f64 {
        let it = self.approximate_pvalue(score).last().unwrap();
        assert!(it.converged); // algorithm should always converge
        *it.range.start()
    }

    /// Iterate with decreasing granularity to compute an approximate *p*-value for a score.
    ///
    /// # Example
    /// Approximate a *p*-value for a score of `10.0` with a granularity of
    /// `0.001`:
    /// ```rust
    /// # use lightmotif::abc::Dna;
    /// # let pssm = lightmotif::pwm::CountMatrix::<Dna>::new(
    /// #     lightmotif::dense::DenseMatrix::from_rows([
    /// #         [1, 0, 1, 0, 0],
    /// #         [0, 1, 1, 0, 0],
    /// #         [0, 0, 0, 2, 0],
    /// #         [0, 0, 2, 0, 0],
    /// #     ])
    /// # ).unwrap().to_freq(0.1).to_scoring(None);
    /// // Initialize the TFM-PVALUE algorithm for a lightmotif PSSM
    /// let mut tfmp = lightmotif_tfmpvalue::TfmPvalue::new(&pssm);
    ///
    /// // Compute the p-value for a score by iterating
    /// // until granularity or convergence are reached.
    /// let p_value = tfmp.approximate_pvalue(10.0)
    ///     .find(|it| it.converged || it.granularity <= 0.001)
    ///     .map(|it| *it.range.start())
    ///     .unwrap();
    /// ```
    pub fn approximate_pvalue(&mut self, score: f64) -> PvaluesIterator<'_, A, M> {
        PvaluesIterator {
            tfmp: self,
            score,
            decay: 10.0,
            granularity: 0.1,
            target: 0.0,
            converged: false,
        }
    }

    /// Compute the exact score associated with a given *p*-value.
    ///
    /// # Caution
    /// This method internally calls `approximate_score` without bounds on
    /// the granularity, which may require a very large amount of memory for
    /// some scoring matrices. Use `approximate_score` directly to add
    /// limits on the number of iterations or on the granularity.
    pub fn score(&mut self, pvalue: f64) -> f64 {
        let it = self.approximate_score(pvalue).last().unwrap();
        assert!(it.converged); // algorithm should always converge
        it.score
    }

    /// Iterate with decreasing granularity to compute an approximate score for a *p*-value.
    pub fn approximate_score(&mut self, pvalue: f64) -> ScoresIterator<'_, A, M> {
        self.recompute(0.1);
        ScoresIterator {
            min: self.min_score_rows.iter().sum(),
            max: self.max_score_rows.iter().sum::<i64>() + (self.error_max + 0.5).ceil() as i64,
            tfmp: self,
            pvalue,
            decay: 10.0,
            granularity: 0.1,
            target: 0.0,
            converged: false,
        }
    }
}

impl<A: Alphabet, M: AsRef<ScoringMatrix<A>>> From<M> for TfmPvalue<A, M> {
    fn from(matrix: M) -> Self {
        Self::new(matrix)
    }
}

/// The result of an iteration of the TFM-PVALUE algorithm.
#[derive(Debug, Clone)]
pub struct Iteration {
    /// The score computed for the current iteration, or the query score
    /// if approximating p-value.
    pub score: f64,
    /// The p-value range for the current iteration.
    pub range: RangeInclusive<f64>,
    /// The granularity with which scores and p-values were computed.
    pub granularity: f64,
    /// A flag to mark whether the approximation converged on this iteration.
    pub converged: bool,
    #[allow(unused)]
    _hidden: (),
}

/// A helper type running iterations to approximate the *p*-value for a score.
#[derive(Debug)]
pub struct PvaluesIterator<'tfmp, A: Alphabet, M: AsRef<ScoringMatrix<A>>> {
    tfmp: &'tfmp mut TfmPvalue<A, M>,
    score: f64,
    decay: f64,
    granularity: f64,
    target: f64,
    converged: bool,
}

impl<'tfmp, A: Alphabet, M: AsRef<ScoringMatrix<A>>> Iterator for PvaluesIterator<'tfmp, A, M> {
    type Item = Iteration;
    fn next(&mut self) -> Option<Self::Item> {
        if self.converged || self.granularity <= self.target {
            return None;
        }

        self.tfmp.recompute(self.granularity);
        let granularity = self.granularity;
        let range = self.tfmp.lookup_pvalue(self.score);

        self.granularity /= self.decay;
        if range.start() == range.end() {
            self.converged = true;
        }

        Some(Iteration {
            range,
            granularity,
            converged: self.converged,
            score: self.score,
            _hidden: (),
        })
    }
}

/// A helper type running iterations to approximate the score for a *p*-value.
#[derive(Debug)]
pub struct ScoresIterator<'tfmp, A: Alphabet, M: AsRef<ScoringMatrix<A>>> {
    tfmp: &'tfmp mut TfmPvalue<A, M>,
    pvalue: f64,
    decay: f64,
    granularity: f64,
    target: f64,
    converged: bool,
    min: i64,
    max: i64,
}

impl<'tfmp, A: Alphabet, M: AsRef<ScoringMatrix<A>>> Iterator for ScoresIterator<'tfmp, A, M> {
    type Item = Iteration;
    fn next(&mut self) -> Option<Self::Item> {
        if self.converged || self.granularity <= self.target {
            return None;
        }

        self.tfmp.recompute(self.granularity);
        let granularity = self.granularity;
        let (iscore, range) = self
            .tfmp
            .lookup_score(self.pvalue, RangeInclusive::new(self.min, self.max));

        self.granularity /= self.decay;
        self.min =
            ((iscore as f64 - (self.tfmp.error_max + 0.5).ceil()) * self.decay).floor() as i64;
        self.max =
            ((iscore as f64 + (self.tfmp.error_max + 0.5).ceil()) * self.decay).floor() as i64;
        if range.start() == range.end() {
            self.converged = true;
        }

        let offset = self.tfmp.offsets.iter().sum::<i64>();
        Some(Iteration {
            granularity,
            range,
            score: (iscore - offset) as f64 * granularity,
            converged: self.converged,
            _hidden: (),
        })
    }
}

