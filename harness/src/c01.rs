//! C01 - every backend computes the defined PSSM score at every position.
use lightmotif::abc::{Alphabet, Dna, Protein};
use lightmotif::num::{U16, U32};
use lightmotif::scores::StripedScores;
use lightmotif::seq::StripedSequence;

use crate::common::*;
use crate::json::J;
use crate::model::*;
use crate::rng::Rng;

pub const RULE: &str = "case = (alphabet, L, M, matrix kind, sequence kind) -> every arm (generic/sse2/avx2 direct, dispatch forced to each x86 arm and unforced; 32 and 16 columns) scores it in full, into a poisoned reused buffer and over row sub-ranges, on sequences whose look-ahead rows were built for shorter motifs first or for a longer motif (more look-ahead rows than needed); values are read through unstripe(), Index, the matrix cell, Vec::from(scores) and iter().rev(), which must agree; every value is compared with an independent f64 model and across arms. Boundary lengths are enumerated on every run, random cases come from VERIF_SEED. A case is non-trivial when L >= M (at least one score exists); distinct = distinct digest of (alphabet, matrix, sequence).";

pub const REQUIRED: &[&str] = &[
    "arm.generic.dna.c32", "arm.sse2.dna.c32", "arm.avx2.dna.c32", "arm.dispatch[generic].dna.c32",
    "arm.dispatch[sse2].dna.c32", "arm.dispatch[avx2].dna.c32", "arm.dispatch[auto].dna.c32",
    "arm.generic.protein.c32", "arm.sse2.protein.c32", "arm.avx2.protein.c32", "arm.dispatch[generic].protein.c32",
    "arm.dispatch[sse2].protein.c32", "arm.dispatch[avx2].protein.c32",
    "arm.generic.dna.c16", "arm.sse2.dna.c16", "arm.generic.protein.c16", "arm.sse2.protein.c16",
    "dispatch_forced.generic", "dispatch_forced.sse2", "dispatch_forced.avx2",
    "class.L<M", "class.L=M", "class.rows>32", "class.rows>1024", "class.reconfigured_for_wider_motif", "class.wrap_exceeds_motif", "class.values_fill_last_column", "class.reused_buffer_same_rows", "class.wildcard_in_window", "class.neg_inf_score",
    "subrange.empty", "subrange.last_row", "subrange.inner",
    "score_position.no_lookahead_rows", "score_position.too_few_lookahead_rows", "score_position.enough_lookahead_rows", "score_position.window_crosses_column",
];

struct Input {
    alpha: &'static str,
    l: usize,
    m: usize,
    mk: MatKind,
    sk: SeqKind,
    rows: Vec<Vec<f32>>,
    seq: Vec<u8>,
}

fn make_input(case: u64, rng: &mut Rng, cfg: &Config, protein: bool) -> Input {
    let k = if protein { 21 } else { 5 };
    // boundary part: enumerated deterministically
    let base = boundary_lengths(0, cfg.thorough());
    let nb = base.len() as u64;
    let nw = (WIDTHS.len() * 3) as u64;
    let idx = case / 2;
    let (l, m) = if idx < nb {
        let m = *rng.pick(&WIDTHS);
        (base[idx as usize], m)
    } else if idx < nb + nw {
        let j = (idx - nb) as usize;
        let m = WIDTHS[j / 3];
        (m + (j % 3) - 1, m)
    } else {
        let m = if rng.chance(0.5) { *rng.pick(&WIDTHS) } else { rng.range(1, 64) };
        let maxl = if cfg.thorough() && rng.chance(0.05) { 40_000 } else { 4_000 };
        let l = if rng.chance(0.02) {
            // more than 1024 striped rows in one call (32 and 16 columns)
            rng.range(32_800, 36_000)
        } else if rng.chance(0.15) {
            rng.range(0, 80)
        } else {
            rng.range(0, maxl)
        };
        (l, m)
    };
    let mk = *rng.pick(&MAT_KINDS);
    let sk = *rng.pick(&SEQ_KINDS);
    let rows = gen_matrix(rng, k, m, mk);
    let seq = gen_seq(rng, k, l, sk);
    Input { alpha: if protein { "protein" } else { "dna" }, l, m, mk, sk, rows, seq }
}

pub fn n_boundary(cfg: &Config) -> u64 {
    2 * (boundary_lengths(0, cfg.thorough()).len() as u64 + (WIDTHS.len() * 3) as u64)
}

fn witness<A: Alphabet>(inp: &Input, arm: &str, cols: usize, extra: J) -> J {
    J::obj()
        .set("alphabet", J::s(inp.alpha))
        .set("L", J::u(inp.l))
        .set("M", J::u(inp.m))
        .set("matrix_kind", J::s(format!("{:?}", inp.mk)))
        .set("sequence_kind", J::s(format!("{:?}", inp.sk)))
        .set("arm", J::s(arm))
        .set("columns", J::u(cols))
        .set("sequence", J::s(fmt_seq_short::<A>(&inp.seq)))
        .set(
            "matrix",
            if inp.m <= 8 {
                J::Arr(inp.rows.iter().map(|r| J::Arr(r.iter().map(|&x| J::f(x as f64)).collect())).collect())
            } else {
                J::s("(omitted: M > 8; regenerate with --only <case>)")
            },
        )
        .set("detail", extra)
}

/// compare one full-scan result against the model; returns the values by position
fn check_full<A: Alphabet, C: lightmotif::num::PositiveLength>(
    case: u64,
    rep: &mut Report,
    inp: &Input,
    arm: Arm,
    exact: &[(f64, f64)],
    scores: &StripedScores<f32, C>,
    r_rows: usize,
) -> Option<Vec<f32>> {
    let cols = C::USIZE;
    let nvalid = exact.len();
    let a = scores.max_index();
    let b = scores.unstripe().len();
    let c = scores.iter().len();
    // number of values through all accessors
    if nvalid == 0 {
        if b != 0 || c != 0 {
            rep.violate(
                "c01.count",
                case,
                format!("{} values reported for L<M (expected none)", b),
                witness::<A>(inp, arm.name(), cols, J::obj().set("unstripe_len", J::u(b)).set("iter_len", J::u(c))),
            );
        }
        return None;
    }
    if a != nvalid || b != nvalid || c != nvalid {
        rep.violate(
            "c01.count",
            case,
            format!("number of values: max_index={} unstripe={} iter={} expected L-M+1={}", a, b, c, nvalid),
            witness::<A>(inp, arm.name(), cols, J::Null),
        );
        return None;
    }
    if scores.matrix().rows() != r_rows {
        rep.violate(
            "c01.count",
            case,
            format!("score matrix has {} rows, sequence has {} rows", scores.matrix().rows(), r_rows),
            witness::<A>(inp, arm.name(), cols, J::Null),
        );
        return None;
    }
    let flat = scores.unstripe();
    // the remaining public ways of reading the values: Vec::from(scores), reverse iteration, nth
    let owned: Vec<f32> = Vec::from(scores.clone());
    let mut rev: Vec<f32> = scores.iter().rev().cloned().collect();
    rev.reverse();
    let same = |x: &[f32], y: &[f32]| x.len() == y.len() && x.iter().zip(y).all(|(a, b)| a.to_bits() == b.to_bits());
    if !same(&owned, &flat) || !same(&rev, &flat) {
        rep.violate(
            "c01.accessors",
            case,
            format!(
                "unstripe() gives {} values, Vec::from(scores) {} and iter().rev() {}; the three must be the same list",
                flat.len(),
                owned.len(),
                rev.len()
            ),
            witness::<A>(inp, arm.name(), cols, J::Null),
        );
        return None;
    }
    if nvalid % r_rows.max(1) == 0 {
        rep.cover("class.values_fill_last_column");
    }
    let mut out = Vec::with_capacity(nvalid);
    let mut reported = false;
    for i in 0..nvalid {
        let got = flat[i];
        let via_index = scores[i];
        let via_matrix = scores.matrix()[i % r_rows][i / r_rows];
        if !(got.to_bits() == via_index.to_bits() && got.to_bits() == via_matrix.to_bits()) && !reported {
            rep.violate(
                "c01.accessors",
                case,
                format!("position {}: unstripe={} Index={} matrix cell={}", i, got, via_index, via_matrix),
                witness::<A>(inp, arm.name(), cols, J::Null),
            );
            reported = true;
        }
        let (ex, abs) = exact[i];
        let ok = if ex == f64::NEG_INFINITY {
            got == f32::NEG_INFINITY
        } else if inp.mk == MatKind::SmallInt {
            got as f64 == ex
        } else {
            got.is_finite() && ((got as f64) - ex).abs() <= tol(inp.m, abs)
        };
        if !ok && !reported {
            rep.violate(
                "c01.value",
                case,
                format!("position {}: got {} expected {} (tolerance {:e})", i, got, ex, tol(inp.m, abs)),
                witness::<A>(
                    inp,
                    arm.name(),
                    cols,
                    J::obj().set("position", J::u(i)).set("got", J::f(got as f64)).set("expected", J::f(ex)),
                ),
            );
            reported = true;
        }
        out.push(got);
    }
    Some(out)
}

fn cross_check<A: Alphabet>(
    case: u64,
    rep: &mut Report,
    inp: &Input,
    reference: &Option<(Arm, usize, Vec<f32>)>,
    arm: Arm,
    cols: usize,
    vals: &[f32],
) {
    if let Some((rarm, rcols, rvals)) = reference {
        for i in 0..vals.len().min(rvals.len()) {
            // identical values (-0.0 == 0.0 accepted)
            if !(vals[i] == rvals[i]) {
                rep.violate(
                    "c01.crossarm",
                    case,
                    format!(
                        "position {}: {}(C={}) gives {} but {}(C={}) gives {}",
                        i,
                        arm.name(),
                        cols,
                        vals[i],
                        rarm.name(),
                        rcols,
                        rvals[i]
                    ),
                    witness::<A>(inp, arm.name(), cols, J::obj().set("position", J::u(i))),
                );
                break;
            }
        }
    }
}

fn run_alpha<A: Alphabet>(case: u64, rng: &mut Rng, rep: &mut Report, inp: &Input) {
    let m = inp.m;
    let l = inp.l;
    let exact = exact_scores(&inp.rows, &inp.seq);
    let pssm = scoring::<A>(&inp.rows);
    let enc = encoded::<A>(&inp.seq);
    let wild = (k_of::<A>() - 1) as u8;

    rep.eval();
    if l >= m {
        let mut d = Digest::new();
        d.bytes(inp.alpha.as_bytes()).bytes(&inp.seq);
        for r in &inp.rows {
            d.f32s(r);
        }
        rep.nontrivial(d.get());
    }
    if l < m {
        rep.cover("class.L<M");
    }
    if l == m {
        rep.cover("class.L=M");
    }
    if exact.iter().any(|e| e.0 == f64::NEG_INFINITY) {
        rep.cover("class.neg_inf_score");
    }
    if l >= m && inp.seq.iter().any(|&s| s == wild) {
        rep.cover("class.wildcard_in_window");
    }

    let mut reference: Option<(Arm, usize, Vec<f32>)> = None;

    // ---- 32 columns -----------------------------------------------------------
    {
        let mut seq: StripedSequence<A, U32> = stripe_generic(&enc);
        if rng.chance(0.3) && m >= 2 {
            // the sequence served a shorter motif (or several) before: look-ahead rows are re-built
            for _ in 0..rng.range(1, 2) {
                seq.configure_wrap(rng.range(1, m - 1));
            }
            rep.cover("class.reconfigured_for_wider_motif");
        }
        if rng.chance(0.3) {
            // the sequence served a LONGER motif before: more look-ahead rows than this motif needs
            // (configure never shrinks them), which must not change any score
            seq.configure_wrap(m - 1 + rng.range(1, 40));
            rep.cover("class.wrap_exceeds_motif");
        }
        seq.configure(&pssm);
        if rng.chance(0.15) {
            seq.configure_wrap(m - 1 + rng.range(1, 40));
            rep.cover("class.wrap_exceeds_motif");
        }
        let r_rows = seq.matrix().rows() - seq.wrap();
        if r_rows > 32 {
            rep.cover("class.rows>32");
        }
        if r_rows > 256 {
            rep.cover("class.rows>256");
        }
        if r_rows > 1024 {
            rep.cover("class.rows>1024");
        }
        // sub-ranges to exercise
        let mut ranges: Vec<(usize, usize, &'static str)> = Vec::new();
        if r_rows > 0 {
            ranges.push((0, 0, "subrange.empty"));
            ranges.push((r_rows - 1, r_rows, "subrange.last_row"));
            let a = rng.below(r_rows);
            let b = rng.range(a, r_rows);
            ranges.push((a, b, "subrange.inner"));
            ranges.push((0, rng.range(0, r_rows), "subrange.prefix"));
        }
        for &arm in ARMS32.iter() {
            let key = format!("arm.{}.{}.c32", arm.name(), inp.alpha);
            // full scan into a poisoned buffer: wrongly sized, or of the right row count but left by a
            // scan that produced another number of values
            let mut buf = StripedScores::<f32, U32>::empty();
            if rng.chance(0.4) {
                buf.resize(r_rows, exact.len() + rng.range(1, 9));
                rep.cover("class.reused_buffer_same_rows");
            } else {
                buf.resize(rng.range(0, r_rows + 3), 7);
            }
            buf.matrix_mut().fill(f32::NAN);
            let res = guard(|| score32::<A>(arm, &pssm, &seq, None, &mut buf));
            unforce();
            rep.cover(&key);
            match res {
                Err(p) => {
                    rep.violate(
                        &format!("c01.panic:{}", panic_site(&p)),
                        case,
                        format!("panic in score_into: {}", p),
                        witness::<A>(inp, arm.name(), 32, J::Null),
                    );
                    continue;
                }
                Ok(()) => {}
            }
            if let Some(vals) = check_full::<A, U32>(case, rep, inp, arm, &exact, &buf, r_rows) {
                cross_check::<A>(case, rep, inp, &reference, arm, 32, &vals);
                if reference.is_none() {
                    reference = Some((arm, 32, vals));
                }
            }
            // the same through `score` (fresh buffer) for the direct arms, and through
            // ScoringMatrix::score for the dispatch arms
            if arm.is_dispatch() {
                force(arm);
                let res = guard(|| pssm.score(&seq));
                unforce();
                match res {
                    Err(p) => rep.violate(
                        &format!("c01.panic:{}", panic_site(&p)),
                        case,
                        format!("panic in ScoringMatrix::score: {}", p),
                        witness::<A>(inp, arm.name(), 32, J::Null),
                    ),
                    Ok(s) => {
                        if let Some(vals) = check_full::<A, U32>(case, rep, inp, arm, &exact, &s, r_rows) {
                            cross_check::<A>(case, rep, inp, &reference, arm, 32, &vals);
                        }
                    }
                }
            }
            // sub-ranges
            for &(a, b, label) in ranges.iter() {
                let mut sub = StripedScores::<f32, U32>::empty();
                sub.resize(rng.range(0, 4), 3);
                sub.matrix_mut().fill(f32::NAN);
                let res = guard(|| score32::<A>(arm, &pssm, &seq, Some(a..b), &mut sub));
                unforce();
                rep.cover(label);
                if let Err(p) = res {
                    rep.violate(
                        &format!("c01.panic:{}", panic_site(&p)),
                        case,
                        format!("panic in score_rows_into({}..{}): {}", a, b, p),
                        witness::<A>(inp, arm.name(), 32, J::Null),
                    );
                    continue;
                }
                let expect_rows = if exact.is_empty() || a == b { 0 } else { b - a };
                if sub.matrix().rows() != expect_rows {
                    rep.violate(
                        "c01.subrange",
                        case,
                        format!("rows {}..{}: result has {} rows, expected {}", a, b, sub.matrix().rows(), expect_rows),
                        witness::<A>(inp, arm.name(), 32, J::Null),
                    );
                    continue;
                }
                if let Some((_, _, rvals)) = &reference {
                    'cells: for r in 0..expect_rows {
                        for c in 0..32 {
                            let pos = c * r_rows + a + r;
                            if pos < exact.len() {
                                let got = sub.matrix()[r][c];
                                if !(got == rvals[pos]) {
                                    rep.violate(
                                        "c01.subrange",
                                        case,
                                        format!(
                                            "rows {}..{}: cell ({},{}) = position {} holds {} but the full scan gives {}",
                                            a, b, r, c, pos, got, rvals[pos]
                                        ),
                                        witness::<A>(inp, arm.name(), 32, J::Null),
                                    );
                                    break 'cells;
                                }
                            }
                        }
                    }
                }
            }
        }
        // score_position on sampled positions, on the configured sequence and on a sequence in
        // another look-ahead state (none, too few for this motif, more than needed): score_position
        // indexes the sequence and must not depend on the look-ahead rows at all
        if !exact.is_empty() {
            let mut other: StripedSequence<A, U32> = stripe_generic(&enc);
            match rng.below(3) {
                0 => rep.cover("score_position.no_lookahead_rows"),
                1 if m >= 3 => {
                    other.configure_wrap(rng.range(1, m - 2));
                    rep.cover("score_position.too_few_lookahead_rows");
                }
                _ => {
                    other.configure_wrap(m - 1 + rng.range(0, 20));
                    rep.cover("score_position.enough_lookahead_rows");
                }
            }
            let o_rows = other.matrix().rows() - other.wrap();
            for k in 0..16 {
                let use_other = k >= 8;
                let sq = if use_other { &other } else { &seq };
                let rws = if use_other { o_rows } else { r_rows };
                // half of the samples are windows that cross a column boundary
                let mut i = rng.below(exact.len());
                if k % 2 == 1 && rws >= 1 {
                    let col = rng.below(32);
                    let back = rng.below(m.min(rws));
                    let cand = (col + 1) * rws;
                    if cand >= back + 1 && cand - back - 1 < exact.len() {
                        i = cand - back - 1;
                        rep.cover("score_position.window_crosses_column");
                    }
                }
                match guard(|| pssm.score_position(sq, i)) {
                    Err(p) => rep.violate(
                        &format!("c01.panic:{}", panic_site(&p)),
                        case,
                        format!("panic in score_position({}): {}", i, p),
                        witness::<A>(inp, "score_position", 32, J::Null),
                    ),
                    Ok(got) => {
                        let (ex, abs) = exact[i];
                        let ok = if ex == f64::NEG_INFINITY {
                            got == f32::NEG_INFINITY
                        } else {
                            ((got as f64) - ex).abs() <= tol(m, abs)
                        };
                        if !ok {
                            rep.violate(
                                "c01.score_position",
                                case,
                                format!("score_position({}) = {} expected {}", i, got, ex),
                                witness::<A>(inp, "score_position", 32, J::Null),
                            );
                        }
                    }
                }
            }
        }
    }

    // ---- 16 columns -----------------------------------------------------------
    {
        let mut seq: StripedSequence<A, U16> = stripe_generic(&enc);
        if rng.chance(0.3) {
            seq.configure_wrap(m - 1 + rng.range(1, 40));
            rep.cover("class.wrap_exceeds_motif");
        }
        seq.configure(&pssm);
        let r_rows = seq.matrix().rows() - seq.wrap();
        for &arm in [Arm::Generic, Arm::Sse2].iter() {
            let key = format!("arm.{}.{}.c16", arm.name(), inp.alpha);
            let mut buf = StripedScores::<f32, U16>::empty();
            buf.resize(rng.range(0, r_rows + 3), 7);
            buf.matrix_mut().fill(f32::NAN);
            let res = guard(|| score16::<A>(arm, &pssm, &seq, None, &mut buf));
            rep.cover(&key);
            if let Err(p) = res {
                rep.violate(
                    &format!("c01.panic:{}", panic_site(&p)),
                    case,
                    format!("panic in score_into (16 columns): {}", p),
                    witness::<A>(inp, arm.name(), 16, J::Null),
                );
                continue;
            }
            if let Some(vals) = check_full::<A, U16>(case, rep, inp, arm, &exact, &buf, r_rows) {
                cross_check::<A>(case, rep, inp, &reference, arm, 16, &vals);
            }
            if r_rows > 0 {
                let a = rng.below(r_rows);
                let b = rng.range(a, r_rows);
                let mut sub = StripedScores::<f32, U16>::empty();
                let res = guard(|| score16::<A>(arm, &pssm, &seq, Some(a..b), &mut sub));
                if let Err(p) = res {
                    rep.violate(
                        &format!("c01.panic:{}", panic_site(&p)),
                        case,
                        format!("panic in score_rows_into({}..{}) (16 columns): {}", a, b, p),
                        witness::<A>(inp, arm.name(), 16, J::Null),
                    );
                    continue;
                }
                let expect_rows = if exact.is_empty() || a == b { 0 } else { b - a };
                if sub.matrix().rows() != expect_rows {
                    rep.violate(
                        "c01.subrange",
                        case,
                        format!("16 columns, rows {}..{}: result has {} rows, expected {}", a, b, sub.matrix().rows(), expect_rows),
                        witness::<A>(inp, arm.name(), 16, J::Null),
                    );
                    continue;
                }
                if let Some((_, _, rvals)) = &reference {
                    'cells16: for r in 0..expect_rows {
                        for c in 0..16 {
                            let pos = c * r_rows + a + r;
                            if pos < exact.len() && !(sub.matrix()[r][c] == rvals[pos]) {
                                rep.violate(
                                    "c01.subrange",
                                    case,
                                    format!(
                                        "16 columns, rows {}..{}: cell ({},{}) = position {} holds {} but the full scan gives {}",
                                        a, b, r, c, pos, sub.matrix()[r][c], rvals[pos]
                                    ),
                                    witness::<A>(inp, arm.name(), 16, J::Null),
                                );
                                break 'cells16;
                            }
                        }
                    }
                }
            }
        }
    }

    rep.sample(|| {
        J::obj()
            .set("case", J::UInt(case))
            .set("alphabet", J::s(inp.alpha))
            .set("L", J::u(l))
            .set("M", J::u(m))
            .set("matrix_kind", J::s(format!("{:?}", inp.mk)))
            .set("sequence_kind", J::s(format!("{:?}", inp.sk)))
            .set("sequence", J::s(fmt_seq_short::<A>(&inp.seq)))
            .set("values_checked_per_arm", J::u(exact.len()))
            .set("first_exact_scores", J::Arr(exact.iter().take(4).map(|e| J::f(e.0)).collect()))
    });
}

pub fn run(cfg: &Config) -> Report {
    let n = n_boundary(cfg) + cfg.n(2000, 60000) as u64;
    run_cases(cfg, n, |case, rng, rep| {
        let protein = case % 2 == 1;
        let inp = make_input(case, rng, cfg, protein);
        if protein {
            run_alpha::<Protein>(case, rng, rep, &inp);
        } else {
            run_alpha::<Dna>(case, rng, rep, &inp);
        }
    })
}
