//! C16 - Gibbs sampler state always equals a recomputation from its alignment (online trace checker).
use lightmotif::abc::{Alphabet, Dna, Protein};
use lightmotif::num::U32;
use lightmotif::sampler::{Sampler, SamplerBuilder, SamplerData, SamplerMode};
use lightmotif::seq::StripedSequence;

use crate::common::*;
use crate::json::J;
use crate::model::*;
use crate::rng::Rng;

pub const RULE: &str = "case = one sampling run: dataset of 2..60 DNA or protein sequences (lengths width+1..300; random, with sparse wildcards, one fully masked sequence whose every window holds a wildcard, or tiny datasets whose background lacks symbols; some striped sequences carry more look-ahead rows than the width needs, one in four is hand-built over a matrix taller than it needs, one in three was configured for a shorter motif before; builder temperature in {0, 0.5, 1, 2}), width 2..30, mode Oops or Zoops (seeds >= 2, several inertia / patience settings), 150..2000 steps, dispatcher forced to each arm. After construction and after EVERY next() the trace checker recomputes from the linear sequences and the reported (active sequences, starts): motif counts = window counts, background = normalised (symbol counts - window counts) of the active sequences, every start + width <= sequence length, Iteration.counts = counts of the previous alignment without the held-out sequence, step increments by one; a twin run with the same data / parameters / seed must give an identical trace. Non-trivial = run in which some start changed; distinct = distinct (dataset, parameters, seed).";

pub const REQUIRED: &[&str] = &[
    "alphabet.dna", "alphabet.protein", "mode.oops", "mode.zoops", "arm.dispatch[generic]", "arm.dispatch[sse2]",
    "arm.dispatch[avx2]", "arm.dispatch[auto]", "steps.checked", "start_changed", "zoops.inclusion", "zoops.rejection",
    "zoops.inactive_holdout", "data.masked_sequence", "data.sparse_background", "data.very_long_sequence", "history.other_width_sampler_first", "data.sampled_striped_sequences", "class.wrap_exceeds_width", "param.temperature=0", "param.temperature!=1", "data.hand_built_taller_matrix", "twin.compared", "dispatch_forced.generic",
    "dispatch_forced.sse2", "dispatch_forced.avx2",
];

#[derive(Clone, PartialEq, Debug)]
struct Snapshot {
    counts: Vec<Vec<u32>>,
    bg: Vec<f32>,
    active: Vec<usize>,
    starts: Vec<usize>,
    it_counts: Option<Vec<Vec<u32>>>,
    z: Option<usize>,
    step: Option<usize>,
}

fn window_counts(k: usize, seqs: &[Vec<u8>], active: &[usize], starts: &[usize], width: usize, skip: Option<usize>) -> Vec<Vec<u32>> {
    let mut c = vec![vec![0u32; k]; width];
    for (a, &i) in active.iter().enumerate() {
        if Some(i) == skip {
            continue;
        }
        for j in 0..width {
            c[j][seqs[i][starts[a] + j] as usize] += 1;
        }
    }
    c
}

fn run_once<A: Alphabet>(
    case: u64,
    rep: Option<&mut Report>,
    alpha: &str,
    seqs: &[Vec<u8>],
    width: usize,
    mode: SamplerMode,
    seeds: usize,
    inertia: Option<usize>,
    patience: Option<usize>,
    steps: usize,
    arm: Arm,
    rng_seed: u64,
    desc: &J,
    sampled: Option<u64>,
) -> Result<Vec<Snapshot>, (String, String, J)> {
    let k = k_of::<A>();
    let striped: Vec<StripedSequence<A, U32>> = match sampled {
        // sequences produced by StripedSequence::sample: every cell incl. the padding is random
        Some(seed) => sampled_sequences::<A>(seed, seqs.iter().map(|s| s.len()).collect(), width),
        None => seqs
            .iter()
            .enumerate()
            .map(|(i, s)| {
                // one sequence in four is built by hand over a matrix taller than it needs
                // (StripedSequence::new: the stripe height is the matrix row count)
                let mut st: StripedSequence<A, U32> = if (s.len() + i) % 4 == 1 { stripe_tall(s, 1 + (i % 3)) } else { stripe_generic(&encoded::<A>(s)) };
                // some sequences carry more look-ahead rows than the width needs (they served a
                // longer motif before); a function of the data only, so that repeated runs agree
                // ... and some were configured before, for a shorter motif (look-ahead rows built in
                // two steps)
                if (s.len() + 2 * i) % 3 == 0 && width >= 3 {
                    st.configure_wrap(1 + (s.len() + i) % (width - 1));
                }
                st.configure_wrap(width + extra_wrap(s.len(), width, i));
                st
            })
            .collect(),
    };
    let data = SamplerData::new(&striped);
    // the builder's temperature (a function of the seed so that twin runs agree); whatever it is,
    // every reported state must stay a recomputation from the reported alignment
    let temperature = [1.0f64, 0.0, 0.5, 2.0, 1.0][(rng_seed % 5) as usize];
    let mut trace: Vec<Snapshot> = Vec::new();
    let mut rep = rep;
    if striped.iter().any(|s| s.wrap() > width) {
        if let Some(r) = rep.as_mut() {
            r.cover("class.wrap_exceeds_width");
        }
    }
    if let Some(r) = rep.as_mut() {
        if temperature == 0.0 {
            r.cover("param.temperature=0");
        }
        if temperature != 1.0 {
            r.cover("param.temperature!=1");
        }
        if sampled.is_none() && striped.iter().enumerate().any(|(i, s)| s.matrix().rows() - s.wrap() > (seqs[i].len() + 31) / 32) {
            r.cover("data.hand_built_taller_matrix");
        }
    }
    let fail = |kind: &str, msg: String, step: usize| (kind.to_string(), msg, desc.clone().set("failing_step", J::u(step)));

    // one run in three: the SamplerData has served another sampler, of another width, before
    // (`builder.width(w2).sample(..)` on shared data is the documented way to try several widths)
    let warm_width = if rng_seed % 3 == 0 && width >= 3 { Some(if rng_seed % 2 == 0 { width - 1 } else { 2 }) } else { None };
    if let (Some(r), Some(_)) = (rep.as_mut(), warm_width) {
        r.cover("history.other_width_sampler_first");
    }
    let built = guard(|| {
        force(arm);
        if let Some(w2) = warm_width {
            let mut first: Sampler<'_, Rng, A, &Vec<StripedSequence<A, U32>>, U32> = Sampler::new(&data, w2, Rng::new(rng_seed ^ 0x5a5a));
            for _ in 0..60 {
                let _ = first.next();
            }
        }
        let s: Sampler<'_, Rng, A, &Vec<StripedSequence<A, U32>>, U32> = match mode {
            SamplerMode::Oops if inertia.is_none() && patience.is_none() && temperature == 1.0 => Sampler::new(&data, width, Rng::new(rng_seed)),
            _ => {
                let mut b = SamplerBuilder::new(&data);
                if let Some(w2) = warm_width {
                    // the same builder served the other width first (fully configured: a Zoops
                    // sampler needs its seeds)
                    b.width(w2).mode(mode.clone());
                    if mode == SamplerMode::Zoops {
                        b.seeds(seeds);
                    }
                    let mut first = b.sample(Rng::new(rng_seed ^ 0xa5a5));
                    for _ in 0..20 {
                        let _ = first.next();
                    }
                }
                b.width(width).mode(mode.clone());
                b.temperature(temperature);
                if mode == SamplerMode::Zoops {
                    b.seeds(seeds);
                }
                if let Some(i) = inertia {
                    b.inertia(i);
                }
                if let Some(p) = patience {
                    b.patience(p);
                }
                b.sample(Rng::new(rng_seed))
            }
        };
        unforce();
        s
    });
    unforce();
    let mut sampler = match built {
        Ok(s) => s,
        Err(p) => return Err(fail(&format!("c16.panic:{}", panic_site(&p)), format!("panic while constructing the sampler: {}", p), 0)),
    };

    // per-sequence symbol counts from the linear sequences
    let sym_counts: Vec<Vec<usize>> = seqs
        .iter()
        .map(|s| {
            let mut c = vec![0usize; k];
            for &x in s {
                c[x as usize] += 1;
            }
            c
        })
        .collect();

    let mut prev_active: Vec<usize> = Vec::new();
    let mut prev_starts: Vec<usize> = Vec::new();
    for step in 0..=steps {
        // step 0 = state after construction; step n = state after the n-th next()
        let mut it_counts = None;
        let mut z = None;
        let mut it_step = None;
        if step > 0 {
            match guard(|| sampler.next()) {
                Err(p) => return Err(fail(&format!("c16.panic:{}", panic_site(&p)), format!("panic in next() at step {}: {}", step - 1, p), step)),
                Ok(None) => break,
                Ok(Some(it)) => {
                    let c: Vec<Vec<u32>> = (0..width).map(|i| it.counts.matrix()[i].to_vec()).collect();
                    if it.step != step - 1 {
                        return Err(fail("c16.step", format!("Iteration.step = {} at the {}-th call of next()", it.step, step), step));
                    }
                    if it.z >= seqs.len() {
                        return Err(fail("c16.holdout", format!("held-out index {} with {} sequences", it.z, seqs.len()), step));
                    }
                    if it.pssm.len() != width || it.counts.len() != width {
                        return Err(fail("c16.iteration_counts", format!("Iteration matrices have width {} / {}, expected {}", it.counts.len(), it.pssm.len(), width), step));
                    }
                    // counts of the previous alignment without the held-out sequence
                    let expect = window_counts(k, seqs, &prev_active, &prev_starts, width, Some(it.z));
                    if c != expect {
                        return Err(fail(
                            "c16.iteration_counts",
                            format!("step {}: Iteration.counts differ from the counts of the previous alignment without sequence {}", step - 1, it.z),
                            step,
                        ));
                    }
                    if let Some(r) = rep.as_deref_mut() {
                        if !prev_active.contains(&it.z) {
                            r.cover("zoops.inactive_holdout");
                        }
                    }
                    it_counts = Some(c);
                    z = Some(it.z);
                    it_step = Some(it.step);
                }
            }
        }
        let obs = guard(|| {
            let cm = sampler.count_matrix();
            let counts: Vec<Vec<u32>> = (0..cm.len()).map(|i| cm.matrix()[i].to_vec()).collect();
            (counts, cm.sequence_count(), sampler.background().frequencies().to_vec(), sampler.active_sequences(), sampler.active_starts())
        });
        let (counts, n_seq, bg, active, starts) = match obs {
            Ok(x) => x,
            Err(p) => return Err(fail(&format!("c16.panic:{}", panic_site(&p)), format!("panic while reading the sampler state after step {}: {}", step, p), step)),
        };
        if active.len() != starts.len() || n_seq != active.len() {
            return Err(fail("c16.active", format!("{} active sequences, {} starts, sequence_count() = {}", active.len(), starts.len(), n_seq), step));
        }
        if active.windows(2).any(|w| w[0] >= w[1]) || active.iter().any(|&i| i >= seqs.len()) {
            return Err(fail("c16.active", format!("active sequence indices are not a strictly increasing subset: {:?}", active), step));
        }
        if mode == SamplerMode::Oops && active.len() != seqs.len() {
            return Err(fail("c16.active", format!("one-occurrence-per-sequence mode with {} of {} sequences active", active.len(), seqs.len()), step));
        }
        for (a, &i) in active.iter().enumerate() {
            if starts[a] + width > seqs[i].len() {
                return Err(fail(
                    "c16.start_out_of_range",
                    format!("after step {}: window of sequence {} (length {}) at start {} leaves the sequence (width {})", step, i, seqs[i].len(), starts[a], width),
                    step,
                ));
            }
        }
        let expect = window_counts(k, seqs, &active, &starts, width, None);
        if counts.len() != width || counts != expect {
            return Err(fail("c16.motif_counts", format!("after step {}: the count matrix differs from the counts of the windows at the reported starts", step), step));
        }
        // background: symbol counts of the active sequences outside their windows, normalised
        let mut bc = vec![0i64; k];
        for (a, &i) in active.iter().enumerate() {
            for s in 0..k {
                bc[s] += sym_counts[i][s] as i64;
            }
            for j in 0..width {
                bc[seqs[i][starts[a] + j] as usize] -= 1;
            }
        }
        let total: i64 = bc.iter().sum();
        for s in 0..k {
            let e = bc[s] as f64 / total as f64;
            if ((bg[s] as f64) - e).abs() > 1e-6 * (1.0 + e) {
                return Err(fail(
                    "c16.background",
                    format!("after step {}: background[{}] = {}, recomputed {} ({} of {} symbols outside the windows)", step, s, bg[s], e, bc[s], total),
                    step,
                ));
            }
        }
        if let Some(r) = rep.as_deref_mut() {
            r.cover("steps.checked");
            if step > 0 {
                let zz = z.unwrap();
                let was = prev_active.iter().position(|&i| i == zz);
                let now = active.iter().position(|&i| i == zz);
                match (was, now) {
                    (Some(a), Some(b)) => {
                        if prev_starts[a] != starts[b] {
                            r.cover("start_changed");
                        }
                    }
                    (None, Some(_)) => r.cover("zoops.inclusion"),
                    (None, None) => r.cover("zoops.rejection"),
                    (Some(_), None) => r.cover("zoops.active_dropped"),
                }
            }
        }
        prev_active = active.clone();
        prev_starts = starts.clone();
        trace.push(Snapshot { counts, bg, active, starts, it_counts, z, step: it_step });
    }
    let _ = (case, alpha);
    Ok(trace)
}

fn sampled_sequences<A: Alphabet>(seed: u64, lens: Vec<usize>, width: usize) -> Vec<StripedSequence<A, U32>> {
    lens.iter()
        .enumerate()
        .map(|(i, &l)| {
            let mut st: StripedSequence<A, U32> = StripedSequence::sample(Rng::new(seed.wrapping_add(i as u64)), lightmotif::abc::Background::<A>::uniform(), l);
            st.configure_wrap(width + extra_wrap(l, width, i));
            st
        })
        .collect()
}

fn extra_wrap(len: usize, width: usize, index: usize) -> usize {
    [0usize, 0, 0, 1, 7, 24, 40][(len * 31 + width * 7 + index) % 7]
}

fn gen_dataset(rng: &mut Rng, rep: &mut Report, k: usize, width: usize, flavour: usize) -> Vec<Vec<u8>> {
    let n = match flavour {
        2 => rng.range(3, 8),
        _ => rng.range(5, 60),
    };
    let max_len = if flavour == 2 { width + 12 } else { 300 };
    let mut seqs: Vec<Vec<u8>> = (0..n)
        .map(|_| {
            let l = rng.range(width + 1, max_len.max(width + 2));
            (0..l)
                .map(|_| if flavour == 0 && rng.chance(0.02) { (k - 1) as u8 } else { rng.below(k - 1) as u8 })
                .collect()
        })
        .collect();
    if flavour == 1 {
        // one sequence with a wildcard in every window; no wildcard anywhere else
        let v = rng.below(n);
        let l = seqs[v].len();
        let mut p = rng.below(width);
        while p < l {
            seqs[v][p] = (k - 1) as u8;
            p += rng.range(1, width);
        }
        rep.cover("data.masked_sequence");
    }
    if flavour == 2 {
        rep.cover("data.sparse_background");
    }
    seqs
}

fn run_case<A: Alphabet>(case: u64, rng: &mut Rng, rep: &mut Report, alpha: &str, cfg: &Config) {
    let k = k_of::<A>();
    rep.eval();
    rep.cover(&format!("alphabet.{}", alpha));
    let width = if rng.chance(0.3) { rng.range(2, 6) } else { rng.range(2, 30) };
    let flavour = rng.below(4).min(2 + (rng.below(2))) % 3;
    let mut seqs = gen_dataset(rng, rep, k, width, flavour);
    if case % 24 == 5 {
        // a chromosome-sized member: one symbol occurs more than 65535 times in it
        let dom = rng.below(k - 1) as u8;
        let l = rng.range(90_000, 110_000);
        let v = rng.below(seqs.len());
        seqs[v] = (0..l).map(|_| if rng.chance(0.8) { dom } else { rng.below(k - 1) as u8 }).collect();
        rep.cover("data.very_long_sequence");
    }
    let sampled = if rng.chance(0.2) {
        // replace the dataset by sequences drawn with StripedSequence::sample; the linear model is read
        // back through the public Index of each striped sequence
        let seed = rng.next_u64();
        let st = sampled_sequences::<A>(seed, seqs.iter().map(|s| s.len()).collect(), width);
        let wild = (k - 1) as u8;
        seqs = st.iter().map(|x| (0..x.len()).map(|i| A::symbols().iter().position(|y| *y == x[i]).map(|p| p as u8).unwrap_or(wild)).collect()).collect();
        rep.cover("data.sampled_striped_sequences");
        Some(seed)
    } else {
        None
    };
    let zoops = rng.chance(0.5);
    let mode = if zoops { SamplerMode::Zoops } else { SamplerMode::Oops };
    rep.cover(if zoops { "mode.zoops" } else { "mode.oops" });
    let seeds = rng.range(2, seqs.len().max(2).min(8));
    let inertia = if zoops {
        *rng.pick(&[None, Some(0), Some(5), Some(40)])
    } else if rng.chance(0.3) {
        Some(0)
    } else {
        None
    };
    let patience = if zoops { *rng.pick(&[None, Some(10_000), Some(50)]) } else { None };
    let steps = if cfg.thorough() { rng.range(300, 2000) } else { rng.range(150, 400) };
    let arm = DISP_ARMS[(case % 4) as usize];
    rep.cover(&format!("arm.{}", arm.name()));
    let rng_seed = rng.next_u64();
    let desc = J::obj()
        .set("alphabet", J::s(alpha))
        .set("sequences", J::u(seqs.len()))
        .set("lengths", J::Arr(seqs.iter().take(12).map(|s| J::u(s.len())).collect()))
        .set("width", J::u(width))
        .set("mode", J::s(if zoops { "zoops" } else { "oops" }))
        .set("seeds", J::u(seeds))
        .set("inertia", inertia.map(J::u).unwrap_or(J::Null))
        .set("patience", patience.map(J::u).unwrap_or(J::Null))
        .set("steps", J::u(steps))
        .set("arm", J::s(arm.name()))
        .set("rng_seed", J::UInt(rng_seed))
        .set("dataset_flavour", J::s(["sparse wildcards", "one masked sequence", "tiny dataset"][flavour]))
        .set("first_sequences", J::Arr(seqs.iter().take(3).map(|s| J::s(fmt_seq_short::<A>(s))).collect()));
    let first = run_once::<A>(case, Some(rep), alpha, &seqs, width, mode.clone(), seeds, inertia, patience, steps, arm, rng_seed, &desc, sampled);
    let t1 = match first {
        Err((kind, msg, wit)) => {
            rep.violate(&kind, case, msg, wit);
            return;
        }
        Ok(t) => t,
    };
    // twin run: identical trace
    let twin = run_once::<A>(case, None, alpha, &seqs, width, mode, seeds, inertia, patience, steps, arm, rng_seed, &desc, sampled);
    rep.cover("twin.compared");
    match twin {
        Err((kind, msg, wit)) => {
            rep.violate(&kind, case, format!("twin run: {}", msg), wit);
            return;
        }
        Ok(t2) => {
            if t1.len() != t2.len() {
                rep.violate("c16.nondeterministic", case, format!("twin runs have {} and {} steps", t1.len(), t2.len()), desc.clone());
                return;
            }
            if let Some(i) = (0..t1.len()).find(|&i| t1[i] != t2[i]) {
                rep.violate("c16.nondeterministic", case, format!("twin runs with the same data, parameters and seed differ at step {}", i), desc.clone());
                return;
            }
        }
    }
    if t1.windows(2).any(|w| w[0].starts != w[1].starts || w[0].active != w[1].active) {
        let mut d = Digest::new();
        d.bytes(alpha.as_bytes()).u(rng_seed).u(width as u64);
        for s in &seqs {
            d.bytes(s);
        }
        rep.nontrivial(d.get());
    }
    rep.sample(|| desc.clone().set("case", J::UInt(case)).set("steps_run", J::u(t1.len() - 1)).set("final_active", J::u(t1.last().unwrap().active.len())));
}

/// a short checked run on a small dataset (used by the memory-checker workload)
pub fn short_run<A: Alphabet>(case: u64, rng: &mut Rng, rep: &mut Report, alpha: &str, steps: usize, arm: Arm) {
    let k = k_of::<A>();
    rep.eval();
    let width = rng.range(2, 12);
    let n = rng.range(3, 8);
    let seqs: Vec<Vec<u8>> = (0..n).map(|_| (0..rng.range(width + 1, width + 60)).map(|_| rng.below(k - 1) as u8).collect()).collect();
    let zoops = rng.chance(0.5);
    let mode = if zoops { SamplerMode::Zoops } else { SamplerMode::Oops };
    let desc = J::obj().set("alphabet", J::s(alpha)).set("width", J::u(width)).set("sequences", J::u(n)).set("arm", J::s(arm.name()));
    let seed = rng.next_u64();
    if let Err((kind, msg, wit)) = run_once::<A>(case, Some(rep), alpha, &seqs, width, mode, 2, if zoops { Some(3) } else { None }, None, steps, arm, seed, &desc, None) {
        rep.violate(&kind, case, msg, wit);
    }
    let mut d = Digest::new();
    d.bytes(b"sampler").u(seed);
    rep.nontrivial(d.get());
}

pub fn run(cfg: &Config) -> Report {
    let n = cfg.n(240, 6000) as u64;
    run_cases(cfg, n, |case, rng, rep| {
        if case % 3 == 0 {
            run_case::<Protein>(case, rng, rep, "protein", cfg)
        } else {
            run_case::<Dna>(case, rng, rep, "dna", cfg)
        }
    })
}
