//! C14 - well-formed motif files load completely and exactly under any stream chunking.
use std::io::Cursor;

use crate::common::*;
use crate::iogen::*;
use crate::json::J;
use crate::rng::Rng;

pub const RULE: &str = "case = one generated motif file (format in {JASPAR raw, JASPAR 2016, TRANSFAC, UniPROBE}; DNA, protein where the format allows; 1..600 records so that the JASPAR readers compact their buffer many times; widths 1..40; counts 0..u32::MAX (TRANSFAC: < 2^24, integer or x.25 decimals); optional description / accession / name / DE present or absent; symbol rows / columns shuffled or partial; optional VV header and DT/CO/BF/BS/CC/RN blocks for TRANSFAC; blank lines between UniPROBE records; free-text fields may contain or end in `//`, `XX`, `P0`; a third of the JASPAR / TRANSFAC files separate records by blank or whitespace-only lines and may end in some; 30% of the files are also read with CRLF line ends) read under 9 delivery schedules: Cursor, and a monitor-owned Read behind BufReader::with_capacity(c), c in {1,2,3,7,64,4096,file length,random} with whole / 1-byte / random short reads and injected ErrorKind::Interrupted. Oracle = the generator's model: same number of records, same order, fields as written (trimmed), every cell at (position, symbol column), zero elsewhere, then end of input. The bundled corpora (JASPAR2024.pwm, prodoric.transfac, test files) are checked against an independent line-based parser under the same schedules. Non-trivial = file with >= 2 records; distinct = distinct file bytes.";

pub const REQUIRED: &[&str] = &[
    "format.jaspar", "format.jaspar16", "format.transfac", "format.uniprobe", "alphabet.protein", "alphabet.user_defined_40_symbols", "reread.dna_file_with_protein_alphabet", "records.1",
    "records>100", "file>64KiB", "schedule.cursor", "schedule.capacity1", "schedule.one_byte_reads",
    "schedule.interrupts", "schedule.whole_file", "corpus.JASPAR2024.pwm", "corpus.prodoric.transfac",
    "corpus.test_files", "field.description_absent", "field.description_present", "columns.shuffled_or_partial", "width>=100", "blank_lines_between_records.jaspar", "blank_lines_between_records.jaspar16", "blank_lines_between_records.transfac", "newline.crlf.jaspar", "newline.crlf.jaspar16", "newline.crlf.transfac", "newline.crlf.uniprobe",
];

fn check_file(case: u64, rng: &mut Rng, rep: &mut Report, format: Format, protein: bool, text: &[u8], expect: &[Rec], label: &str) {
    let float_cells = format == Format::Uniprobe;
    let wit = |sched: &str, msg: &str| {
        let head = String::from_utf8_lossy(&text[..text.len().min(600)]).to_string();
        J::obj()
            .set("file", J::s(label))
            .set("format", J::s(format.name()))
            .set("protein", J::Bool(protein))
            .set("bytes", J::u(text.len()))
            .set("records_written", J::u(expect.len()))
            .set("schedule", J::s(sched))
            .set("difference", J::s(msg))
            .set("file_head", J::s(head))
    };
    // 1. plain cursor
    rep.cover("schedule.cursor");
    let mut outcomes: Vec<(String, Result<Outcome, String>)> = Vec::new();
    outcomes.push(("Cursor".to_string(), guard(|| read_all(format, protein, Cursor::new(text), text.len()))));
    // 2. chunked schedules
    for s in schedules(rng, text.len()) {
        if s.capacity == 1 {
            rep.cover("schedule.capacity1");
        }
        if s.max_chunk == 1 {
            rep.cover("schedule.one_byte_reads");
        }
        if s.interrupt > 0.0 {
            rep.cover("schedule.interrupts");
        }
        if s.capacity >= text.len() && s.max_chunk == 0 {
            rep.cover("schedule.whole_file");
        }
        let name = format!("BufReader(cap={}) over reads of <= {} bytes, interrupt rate {}", s.capacity, if s.max_chunk == 0 { "all".to_string() } else { s.max_chunk.to_string() }, s.interrupt);
        let r = guard(|| {
            let (b, _c) = chunked(text, &s);
            read_all(format, protein, b, text.len())
        });
        outcomes.push((name, r));
    }
    for (name, r) in outcomes {
        rep.eval();
        match r {
            Err(p) => {
                rep.violate(&format!("c14.panic:{}", panic_site(&p)), case, format!("{}: panic while reading a well-formed {} file: {}", name, format.name(), p), wit(&name, &p));
                return;
            }
            Ok(Outcome::Error(n, e)) => {
                rep.violate("c14.error_on_wellformed", case, format!("{}: error after {} of {} records: {}", name, n, expect.len(), e), wit(&name, &e));
                return;
            }
            Ok(Outcome::Runaway(n)) => {
                rep.violate("c14.runaway", case, format!("{}: {} records returned for {} bytes of input", name, n, text.len()), wit(&name, "runaway"));
                return;
            }
            Ok(Outcome::Records(got)) => {
                if let Some(d) = diff_records(&got, expect, float_cells) {
                    rep.violate("c14.records_differ", case, format!("{}: {}", name, d), wit(&name, &d));
                    return;
                }
            }
        }
    }
}

fn gen_case(case: u64, rng: &mut Rng, rep: &mut Report, cfg: &Config) {
    let format = FORMATS[(case % 4) as usize];
    let protein = format != Format::Jaspar && rng.chance(0.25);
    let n = match rng.below(10) {
        0 => 1,
        1 => 2,
        2 | 3 => rng.range(3, 12),
        4 | 5 | 6 => rng.range(12, 80),
        _ => rng.range(100, if cfg.thorough() { 600 } else { 300 }),
    };
    let f = gen_file(rng, format, protein, n);
    rep.cover(&format!("format.{}", format.name()));
    if protein {
        rep.cover("alphabet.protein");
    }
    if n == 1 {
        rep.cover("records.1");
    }
    if n > 100 {
        rep.cover("records>100");
    }
    if f.text.len() > 65536 {
        rep.cover("file>64KiB");
    }
    if f.records.iter().any(|r| r.cells.len() >= 100) {
        rep.cover("width>=100");
    }
    if f.records.iter().any(|r| r.description.is_none()) {
        rep.cover("field.description_absent");
    }
    if f.records.iter().any(|r| r.description.is_some()) {
        rep.cover("field.description_present");
    }
    if format != Format::Jaspar {
        rep.cover("columns.shuffled_or_partial");
    }
    if f.blank_sep && n >= 2 {
        rep.cover(&format!("blank_lines_between_records.{}", format.name()));
    }
    if n >= 2 {
        let mut d = Digest::new();
        d.bytes(&f.text);
        rep.nontrivial(d.get());
    }
    check_file(case, rng, rep, format, protein, &f.text, &f.records, "generated");
    if !protein && format != Format::Jaspar && rng.chance(0.3) {
        // A C G T (and N) are letters of the protein alphabet too: the same bytes are a well-formed
        // protein file, read on the same thread right after the DNA reading
        const TO_PROTEIN: [usize; 5] = [0, 1, 16, 5, 11]; // A C T G N -> A C T G N(asparagine)
        let mapped: Vec<Rec> = f
            .records
            .iter()
            .map(|r| Rec {
                id: r.id.clone(),
                accession: r.accession.clone(),
                name: r.name.clone(),
                description: r.description.clone(),
                cells: r
                    .cells
                    .iter()
                    .map(|row| {
                        let mut out = vec![0f64; 21];
                        for (j, &x) in row.iter().enumerate() {
                            out[TO_PROTEIN[j]] = x;
                        }
                        out
                    })
                    .collect(),
            })
            .collect();
        rep.cover("reread.dna_file_with_protein_alphabet");
        check_file(case, rng, rep, format, true, &f.text, &mapped, "generated DNA file, read with the protein alphabet");
    }
    if rng.chance(0.3) {
        // the same file with Windows line ends: the readers split lines on line_ending / trim the carriage return
        let mut crlf = Vec::with_capacity(f.text.len() + f.text.len() / 16);
        for &b in f.text.iter() {
            if b == b'\n' {
                crlf.push(b'\r');
            }
            crlf.push(b);
        }
        rep.cover(&format!("newline.crlf.{}", format.name()));
        check_file(case, rng, rep, format, protein, &crlf, &f.records, "generated, CRLF line ends");
    }
    rep.sample(|| {
        J::obj()
            .set("case", J::UInt(case))
            .set("format", J::s(format.name()))
            .set("protein", J::Bool(protein))
            .set("records", J::u(n))
            .set("bytes", J::u(f.text.len()))
            .set("file_head", J::s(String::from_utf8_lossy(&f.text[..f.text.len().min(300)]).to_string()))
    });
}

// --- independent line-based parsers for the bundled corpora ---------------------------------------

const DNA_COL: [(char, usize); 5] = [('A', 0), ('C', 1), ('T', 2), ('G', 3), ('N', 4)];

fn dna_col(c: char) -> Option<usize> {
    DNA_COL.iter().find(|x| x.0 == c).map(|x| x.1)
}

fn ref_jaspar16(text: &str) -> Vec<Rec> {
    let mut out: Vec<Rec> = Vec::new();
    for line in text.lines() {
        if let Some(h) = line.strip_prefix('>') {
            let mut it = h.splitn(2, |c: char| c.is_ascii_whitespace());
            let id = it.next().unwrap_or("").to_string();
            let desc = it.next().map(|s| s.trim().to_string()).filter(|s| !s.is_empty());
            out.push(Rec { id: Some(id), accession: None, name: None, description: desc, cells: Vec::new() });
        } else if !line.trim().is_empty() {
            let sym = line.chars().next().unwrap();
            let inner = &line[line.find('[').unwrap() + 1..line.find(']').unwrap()];
            let vals: Vec<f64> = inner.split_whitespace().map(|t| t.parse::<u32>().unwrap() as f64).collect();
            let rec = out.last_mut().unwrap();
            if rec.cells.is_empty() {
                rec.cells = vec![vec![0.0; 5]; vals.len()];
            }
            for (i, v) in vals.iter().enumerate() {
                rec.cells[i][dna_col(sym).unwrap()] = *v;
            }
        }
    }
    out
}

fn ref_transfac(text: &str) -> Vec<Rec> {
    let mut out = Vec::new();
    let mut cur = Rec { id: None, accession: None, name: None, description: None, cells: Vec::new() };
    let mut cols: Vec<usize> = Vec::new();
    let mut any = false;
    for line in text.lines() {
        if line.starts_with("//") {
            if any {
                out.push(cur.clone());
            }
            cur = Rec { id: None, accession: None, name: None, description: None, cells: Vec::new() };
            cols.clear();
            any = false;
            continue;
        }
        if line.len() < 2 {
            continue;
        }
        let (tag, rest) = line.split_at(2);
        any = true;
        match tag {
            "VV" => any = false,
            "ID" => cur.id = Some(rest.trim().to_string()),
            "AC" => cur.accession = Some(rest.trim().to_string()),
            "NA" => cur.name = Some(rest.trim().to_string()),
            "DE" => cur.description = Some(rest.trim().to_string()),
            "P0" | "PO" => cols = rest.split_whitespace().map(|t| dna_col(t.chars().next().unwrap()).unwrap()).collect(),
            t if t.chars().all(|c| c.is_ascii_digit()) && !cols.is_empty() => {
                let vals: Vec<f64> = rest.split_whitespace().take(cols.len()).map(|t| t.parse::<f32>().unwrap() as f64).collect();
                let mut row = vec![0.0; 5];
                for (c, v) in cols.iter().zip(vals) {
                    row[*c] = v;
                }
                cur.cells.push(row);
            }
            _ => {}
        }
    }
    out
}

fn ref_uniprobe(text: &str) -> Vec<Rec> {
    let mut out: Vec<Rec> = Vec::new();
    for line in text.lines() {
        if line.trim().is_empty() {
            continue;
        }
        let b = line.as_bytes();
        if b.len() > 2 && b[1] == b':' && dna_col(b[0] as char).is_some() && b[2] == b'\t' {
            let vals: Vec<f64> = line[2..].split('\t').filter(|t| !t.is_empty()).map(|t| t.parse::<f32>().unwrap() as f64).collect();
            let rec = out.last_mut().unwrap();
            if rec.cells.is_empty() {
                rec.cells = vec![vec![0.0; 5]; vals.len()];
            }
            for (i, v) in vals.iter().enumerate() {
                rec.cells[i][dna_col(b[0] as char).unwrap()] = *v;
            }
        } else {
            out.push(Rec { id: Some(line.trim().to_string()), accession: None, name: None, description: None, cells: Vec::new() });
        }
    }
    out
}

const CORPORA: [(&str, Format, &str); 9] = [
    ("/repo/lightmotif-io/benches/JASPAR2024.pwm", Format::Jaspar16, "corpus.JASPAR2024.pwm"),
    ("/repo/lightmotif-io/benches/prodoric.transfac", Format::Transfac, "corpus.prodoric.transfac"),
    ("/repo/lightmotif-io/tests/MA0001.3.pfm", Format::Jaspar16, "corpus.test_files"),
    ("/repo/lightmotif-io/tests/MA0017.3.pfm", Format::Jaspar16, "corpus.test_files"),
    ("/repo/lightmotif-io/tests/M00005.transfac", Format::Transfac, "corpus.test_files"),
    ("/repo/lightmotif-io/tests/MA0001.2.transfac", Format::Transfac, "corpus.test_files"),
    ("/repo/lightmotif-io/tests/MX000001.transfac", Format::Transfac, "corpus.test_files"),
    ("/repo/lightmotif-io/tests/demo.uniprobe", Format::Uniprobe, "corpus.test_files"),
    ("/repo/lightmotif-io/tests/Gal4.uniprobe", Format::Uniprobe, "corpus.test_files"),
];

fn corpus_case(case: u64, rng: &mut Rng, rep: &mut Report, idx: usize) {
    let (path, format, key) = CORPORA[idx];
    let text = match std::fs::read(path) {
        Ok(t) => t,
        Err(e) => {
            rep.harness_errors.push(format!("cannot read corpus {}: {}", path, e));
            return;
        }
    };
    let s = String::from_utf8_lossy(&text).to_string();
    let expect = match format {
        Format::Jaspar16 => ref_jaspar16(&s),
        Format::Transfac => ref_transfac(&s),
        _ => ref_uniprobe(&s),
    };
    rep.cover(key);
    rep.cover_n("corpus.records", expect.len() as u64);
    let mut d = Digest::new();
    d.bytes(&text);
    rep.nontrivial(d.get());
    check_file(case, rng, rep, format, false, &text, &expect, path);
}

pub fn run(cfg: &Config) -> Report {
    let nc = CORPORA.len() as u64;
    let n = nc + cfg.n(400, 12_000) as u64;
    run_cases(cfg, n, |case, rng, rep| {
        if case < nc {
            corpus_case(case, rng, rep, case as usize)
        } else if case % 16 == 11 {
            crate::iowide::roundtrip(case, rng, rep)
        } else {
            gen_case(case, rng, rep, cfg)
        }
    })
}
