//! C12 / C13 - TFM-PVALUE p-value ranges and score thresholds are consistent with the exact distribution.
use generic_array::GenericArray;
use lightmotif::abc::{Alphabet, Background, Dna, Protein};
use lightmotif::pwm::ScoringMatrix;
use lightmotif_tfmpvalue::TfmPvalue;

use crate::common::*;
use crate::distmodel::*;
use crate::json::J;
use crate::model::*;
use crate::rng::Rng;

pub const RULE12: &str = "case = (alphabet, scoring matrix of width 2..6 (thorough 2..8; protein 2..3) with finite non-wildcard entries, uniform, dyadic non-uniform, zero-on-some-regular-symbols or wildcard-weighted background (the wildcard is then one more symbol of the exact model); rows strictly positive / negative / with a positive minimum below 0.1). Half of the cases serve all their queries (in shuffled order) from ONE TfmPvalue object, disturbed between queries by other complete or abandoned pvalue / score refinements, which must not change any answer. The exact distribution is enumerated over all words; for query scores below the minimum (near and far), above the maximum, exactly attainable, just above / below an attainable value and random, EVERY Iteration of approximate_pvalue down to granularity 1e-8 must report 0 <= pmin <= pmax <= 1 with P(S >= s+(M+1)g) <= pmin and pmax <= P(S >= s-(M+2)g) (+-1e-9); where convergence was observed pvalue(s) must equal the converged lower bound. Non-trivial = query inside [min-1, max+1]; distinct = distinct (matrix, background, score).";

pub const RULE13: &str = "case = (alphabet, matrix, background and object reuse as C12, p in (0,1) equal to attainable tail probabilities, between them, and log-uniform). EVERY Iteration of approximate_score down to granularity 1e-8 returns a threshold t with, d = (M+2)g: P(S >= t+d) <= p and, if u is the largest attainable score below t-d, P(S >= u-d) >= p (+-1e-9); score(p) where convergence was observed equals the converged threshold. Non-trivial = p above the smallest attainable tail; distinct = distinct (matrix, background, p).";

pub const REQUIRED12: &[&str] = &[
    "alphabet.dna", "alphabet.protein", "bg.uniform", "bg.nonuniform", "query.below_min", "query.far_below_min",
    "query.above_max", "query.attainable", "query.attainable_eps", "query.random", "iterations.checked", "converged.observed",
    "pvalue.checked", "matrix.finite_wildcard_column", "bg.zero_frequency_symbols", "bg.wildcard_weighted", "bg.skewed_from_counts", "matrix.flat_row", "matrix.strongly_negative_cell", "object.reused_after_other_queries", "matrix.row_min_in_(0,0.1)",
];
pub const REQUIRED13: &[&str] = &[
    "alphabet.dna", "alphabet.protein", "bg.uniform", "bg.nonuniform", "p.attainable_tail", "p.between_tails",
    "p.log_uniform", "p.smallest_tails", "iterations.checked", "converged.observed", "score.checked", "lower_side.checked", "matrix.finite_wildcard_column", "bg.zero_frequency_symbols", "bg.wildcard_weighted", "bg.skewed_from_counts", "matrix.flat_row", "matrix.strongly_negative_cell", "object.reused_after_other_queries", "matrix.row_min_in_(0,0.1)",
];

pub struct Setup<A: Alphabet> {
    pub pssm: ScoringMatrix<A>,
    pub rows: Vec<Vec<f32>>,
    pub bgv: Vec<f32>,
    pub fam: &'static str,
    pub ex: ExactDist,
    /// the exact distribution of the same matrix with every wildcard cell read as -inf, present
    /// when the background gives the wildcard a non-zero frequency AND a wildcard cell is finite:
    /// root-cause predicate of the known finding "TFM-PVALUE ignores the wildcard symbol"
    pub ex_nowild: Option<ExactDist>,
    pub m: usize,
}

pub fn setup<A: Alphabet>(rng: &mut Rng, rep: &mut Report, max_m: usize) -> Option<Setup<A>> {
    let k = k_of::<A>();
    // 8 % of the DNA cases: a longer motif (7-8 columns, still enumerated exactly) in which four or
    // five positions are NEARLY flat - all their cells fall into one bin of the coarsest
    // granularity, with different remainders - next to informative ones
    let nearly_flat_mode = k == 5 && max_m >= 6 && rng.chance(0.08);
    let m = if nearly_flat_mode { rng.range(7, 10) } else { rng.range(2, max_m) };
    let mut zero_freq = false;
    let mut wild_weight = false;
    let (bgv, bg) = if rng.chance(0.12) {
        // some regular symbols never occur (e.g. an AT-only background): legal, and the words
        // containing them carry no probability
        rep.cover("bg.zero_frequency_symbols");
        zero_freq = true;
        let n = k - 1;
        let unit = 64u32;
        let alive = rng.range(1, (n - 1).min(4));
        let mut parts = vec![0u32; n];
        let mut idx: Vec<usize> = (0..n).collect();
        for i in 0..alive {
            let j = i + rng.below(n - i);
            idx.swap(i, j);
        }
        let mut left = unit;
        for (i, &j) in idx[..alive].iter().enumerate() {
            let v = if i + 1 == alive { left } else if rng.chance(0.4) { (left / (alive - i) as u32).max(1) } else { rng.range(1, (left as usize) - (alive - i - 1)) as u32 };
            parts[j] = v;
            left -= v;
        }
        let mut bgv: Vec<f32> = parts.iter().map(|&p| p as f32 / unit as f32).collect();
        bgv.push(0.0);
        (bgv.clone(), Background::<A>::new(bgv.iter().cloned().collect::<GenericArray<f32, A::K>>()).ok()?)
    } else if rng.chance(0.1) {
        // strongly skewed (from counts): word probabilities span 20 orders of magnitude, the rare
        // symbols are often the high-scoring ones of a log-odds matrix
        rep.cover("bg.skewed_from_counts");
        let mut c: Vec<usize> = (0..k).map(|j| if j == k - 1 { 0 } else { 1 }).collect();
        c[rng.below(k - 1)] = *rng.pick(&[9997usize, 99_997, 509]);
        let ga: GenericArray<usize, A::K> = c.iter().cloned().collect();
        let b = Background::<A>::from_counts(&ga).ok()?;
        (b.frequencies().to_vec(), b)
    } else if rng.chance(0.2) {
        // the wildcard has a non-zero frequency: it is one more symbol of the random word
        rep.cover("bg.wildcard_weighted");
        wild_weight = true;
        let bgv = dyadic_full_bg(rng, k);
        (bgv.clone(), Background::<A>::new(bgv.iter().cloned().collect::<GenericArray<f32, A::K>>()).ok()?)
    } else if rng.chance(0.5) {
        rep.cover("bg.uniform");
        (uniform_bg(k), Background::<A>::uniform())
    } else {
        rep.cover("bg.nonuniform");
        let bgv = dyadic_nonzero_bg(rng, k);
        (bgv.clone(), Background::<A>::new(bgv.iter().cloned().collect::<GenericArray<f32, A::K>>()).ok()?)
    };
    // (log-odds under a background with zero entries would have -inf non-wildcard cells, which the
    // property excludes)
    let (pssm, fam): (ScoringMatrix<A>, &'static str) = if !zero_freq && !nearly_flat_mode && rng.chance(0.7) {
        let mut dm = lightmotif::dense::DenseMatrix::<u32, A::K>::new(m);
        for i in 0..m {
            let hi = if rng.chance(0.3) { 4 } else { 30 };
            for j in 0..k - 1 {
                dm[i][j] = rng.below(hi) as u32;
            }
        }
        let cm = lightmotif::pwm::CountMatrix::<A>::new(dm).unwrap();
        let pseudo = *rng.pick(&[0.1f32, 0.25, 1.0]);
        (cm.to_freq(pseudo).to_scoring(bg.clone()), "log_odds")
    } else {
        // (the informative rows of the nearly-flat class need rounding remainders: real-valued cells)
        let kind = if nearly_flat_mode { MatKind::Finite } else { *rng.pick(&[MatKind::Finite, MatKind::SmallInt, MatKind::FewValued]) };
        let mut rows = gen_matrix(rng, k, m, kind);
        if nearly_flat_mode {
            let n_flat = rng.range(4, 6.min(m - 3));
            let mut idx: Vec<usize> = (0..m).collect();
            rng.shuffle(&mut idx);
            for &i in idx[..n_flat].iter() {
                let base = (rng.range(0, 40) as f32 - 20.0) * 0.1 + 0.001;
                for x in rows[i].iter_mut().take(k - 1) {
                    *x = base + rng.f32_in(0.0, 0.097);
                }
            }
            rep.cover("matrix.several_nearly_flat_rows");
        }
        // the wildcard column may be -inf (library conversions) or finite (ScoringMatrix::new, Python)
        let wild_mode = rng.below(3);
        for r in rows.iter_mut() {
            if kind == MatKind::Finite {
                for x in r.iter_mut().take(k - 1) {
                    *x *= 0.25;
                }
            }
            // some rows strictly positive, some strictly negative
            match rng.below(7) {
                0 => {
                    let lo = r[..k - 1].iter().cloned().fold(f32::INFINITY, f32::min);
                    for x in r.iter_mut().take(k - 1) {
                        *x += 0.5 - lo;
                    }
                }
                6 if rng.chance(0.5) => {
                    // one strongly negative (finite) cell: the integer scores of the fine steps
                    // grow past 2^24 (a "never" letter written as -1000 instead of -inf)
                    let j = rng.below(k - 1);
                    r[j] = *rng.pick(&[-1000.0f32, -500.0, -2000.0]);
                    rep.cover("matrix.strongly_negative_cell");
                }
                5 => {
                    // (nearly) flat over the regular symbols: one integer score at the coarse steps
                    let v = r[0];
                    let spread = *rng.pick(&[0.0f32, 0.0, 0.04, 0.004]);
                    for x in r.iter_mut().take(k - 1) {
                        *x = v + spread * rng.f32_in(0.0, 1.0);
                    }
                    rep.cover("matrix.flat_row");
                }
                4 => {
                    // strictly positive with a minimum below the coarsest granularity (0.1)
                    let lo = r[..k - 1].iter().cloned().fold(f32::INFINITY, f32::min);
                    let target = rng.f32_in(0.002, 0.098);
                    for x in r.iter_mut().take(k - 1) {
                        *x += target - lo;
                    }
                    rep.cover("matrix.row_min_in_(0,0.1)");
                }
                1 => {
                    let hi = r[..k - 1].iter().cloned().fold(f32::NEG_INFINITY, f32::max);
                    for x in r.iter_mut().take(k - 1) {
                        *x -= 0.5 + hi;
                    }
                }
                _ => {}
            }
            r[k - 1] = match wild_mode {
                0 => f32::NEG_INFINITY,
                1 => 0.0,
                _ => rng.f32_in(-3.0, 3.0),
            };
        }
        if wild_mode != 0 {
            rep.cover("matrix.finite_wildcard_column");
        }
        (ScoringMatrix::<A>::new(bg.clone(), dense::<A>(&rows)), "arbitrary")
    };
    let rows: Vec<Vec<f32>> = (0..m).map(|i| pssm.matrix()[i].to_vec()).collect();
    let ex = ExactDist::new(&rows, &bgv);
    let ex_nowild = if wild_weight && rows.iter().any(|r| r[k - 1].is_finite()) {
        rep.cover("matrix.finite_wildcard_under_weighted_wildcard");
        let masked: Vec<Vec<f32>> = rows
            .iter()
            .map(|r| {
                let mut r = r.clone();
                r[k - 1] = f32::NEG_INFINITY;
                r
            })
            .collect();
        Some(ExactDist::new(&masked, &bgv))
    } else {
        None
    };
    let _ = wild_weight;
    Some(Setup { pssm, rows, bgv, fam, ex, ex_nowild, m })
}

impl<A: Alphabet> Setup<A> {
    pub fn witness(&self, alpha: &str, extra: J) -> J {
        J::obj()
            .set("alphabet", J::s(alpha))
            .set("width", J::u(self.m))
            .set("matrix_family", J::s(self.fam))
            .set("background", J::Arr(self.bgv.iter().map(|&x| J::f(x as f64)).collect()))
            .set("matrix", J::Arr(self.rows.iter().map(|r| J::Arr(r.iter().map(|&x| J::f(x as f64)).collect())).collect()))
            .set("detail", extra)
    }
    pub fn digest(&self, alpha: &str, q: f64) -> u64 {
        let mut d = Digest::new();
        d.bytes(alpha.as_bytes()).f32s(&self.bgv).u(q.to_bits());
        for r in &self.rows {
            d.f32s(r);
        }
        d.get()
    }
}

/// comparisons up to a RELATIVE noise (probabilities are sums of products of non-negative f64
/// terms on both sides, so tiny tails are accurate to rounding too; 1e-300 absorbs exact zeros)
fn gt(x: f64, y: f64, rel: f64) -> bool {
    x > y * (1.0 + rel) + 1e-300
}
fn lt(x: f64, y: f64, rel: f64) -> bool {
    x < y * (1.0 - rel) - 1e-300
}

const MIN_G: f64 = 0.5e-8;
const EPS: f64 = 1e-9;

/// One TfmPvalue object may serve many queries: between two monitored queries the shared object is
/// disturbed by other public calls (complete and abandoned refinements of both kinds), which must
/// not change any later answer.
fn disturb<A: Alphabet>(rng: &mut Rng, rep: &mut Report, st: &Setup<A>, t: &mut TfmPvalue<A, &ScoringMatrix<A>>) -> Result<Vec<usize>, String> {
    let ex = &st.ex;
    let n = rng.below(3);
    let mut ops = Vec::new();
    for _ in 0..n {
        let which = rng.below(7);
        ops.push(which);
        let r = guard(|| match which {
            0 => {
                // converges at the first step
                let _ = t.pvalue(ex.min() - 50.0);
            }
            1 => {
                let _ = t.pvalue(ex.max() + 50.0);
            }
            2 => {
                let _ = t.pvalue(ex.scores[ex.scores.len() / 2]);
            }
            3 => {
                // abandoned after the first step
                let _ = t.approximate_pvalue(ex.min() + (ex.max() - ex.min()) * 0.37).next();
            }
            4 => {
                let _ = t.score(0.3);
            }
            6 => {
                // abandoned after the first (0.1) step
                let _ = t.approximate_score(0.2).next();
            }
            _ => {
                let mut it = t.approximate_score(0.01);
                let _ = it.next();
                let _ = it.next();
            }
        });
        rep.cover("object.reused_after_other_queries");
        if let Err(p) = r {
            return Err(p);
        }
    }
    Ok(ops)
}

/// the same disturbance on the frozen reference copy (used to classify the known C13 finding on a
/// reused object: identical histories give identical hash-map layouts, hence identical sums)
fn disturb_ref<A: Alphabet>(ops: &[usize], st: &Setup<A>, t: &mut crate::tfm_ref::TfmPvalue<A, &ScoringMatrix<A>>) {
    let ex = &st.ex;
    for &which in ops {
        let _ = guard(|| match which {
            0 => {
                let _ = t.pvalue(ex.min() - 50.0);
            }
            1 => {
                let _ = t.pvalue(ex.max() + 50.0);
            }
            2 => {
                let _ = t.pvalue(ex.scores[ex.scores.len() / 2]);
            }
            3 => {
                let _ = t.approximate_pvalue(ex.min() + (ex.max() - ex.min()) * 0.37).next();
            }
            4 => {
                let _ = t.score(0.3);
            }
            6 => {
                // abandoned after the first (0.1) step
                let _ = t.approximate_score(0.2).next();
            }
            _ => {
                let mut it = t.approximate_score(0.01);
                let _ = it.next();
                let _ = it.next();
            }
        });
    }
}

fn case12<A: Alphabet>(case: u64, rng: &mut Rng, rep: &mut Report, alpha: &str, max_m: usize) {
    rep.cover(&format!("alphabet.{}", alpha));
    let st = match setup::<A>(rng, rep, max_m) {
        Some(s) => s,
        None => return,
    };
    let ex = &st.ex;
    let m = st.m as f64;
    // the f32 background frequencies need not sum to exactly 1 once widened to f64 (20 x 0.05f32 =
    // 1 + 1.5e-8): probabilities are only defined up to that relative noise per matrix row
    let bg_sum: f64 = st.bgv.iter().map(|&x| x as f64).sum();
    let noise = EPS + 2.0 * m * (bg_sum - 1.0).abs();
    let mut queries: Vec<(f64, &str)> = vec![
        (ex.min() - 0.5, "query.below_min"),
        (ex.min() - 0.05, "query.below_min"),
        (ex.min() - 37.0, "query.far_below_min"),
        (ex.max() + 0.5, "query.above_max"),
        (ex.max() + 11.0, "query.above_max"),
        (ex.min(), "query.attainable"),
        (ex.max(), "query.attainable"),
    ];
    for _ in 0..4 {
        let s = ex.scores[rng.below(ex.scores.len())];
        queries.push((s, "query.attainable"));
        queries.push((s + 1e-6, "query.attainable_eps"));
        queries.push((s - 1e-6, "query.attainable_eps"));
    }
    for _ in 0..6 {
        queries.push((ex.min() + (ex.max() - ex.min()) * rng.f64(), "query.random"));
    }
    let mut shared: Option<TfmPvalue<A, &ScoringMatrix<A>>> = if rng.chance(0.5) { Some(TfmPvalue::new(&st.pssm)) } else { None };
    if rng.chance(0.5) {
        // the order of the queries matters to an object that keeps state
        for i in (1..queries.len()).rev() {
            let j = rng.below(i + 1);
            queries.swap(i, j);
        }
    }
    for (s, key) in queries {
        rep.eval();
        rep.cover(key);
        if s >= ex.min() - 1.0 && s <= ex.max() + 1.0 {
            rep.nontrivial(st.digest(alpha, s));
        }
        let mut restart_shared = false;
        if let Some(t) = shared.as_mut() {
            if let Err(p) = disturb(rng, rep, &st, t) {
                // the disturbing calls include score refinements, which can hit the open C13 finding
                // (lookup_score window panic, reported by the C13 check): not a C12 matter - the
                // object is replaced and the run goes on
                if c13_panic_kind(&st, &p, None) == "c13.window_exhausted_above.panic" {
                    rep.cover("disturb.known_c13_window_panic_skipped");
                    restart_shared = true;
                } else {
                    rep.violate(&format!("c12.panic:{}", panic_site(&p)), case, format!("panic in a query on a reused object: {}", p), st.witness(alpha, J::Null));
                    return;
                }
            }
        }
        if restart_shared {
            shared = Some(TfmPvalue::new(&st.pssm));
        }
        let res = guard(|| {
            let mut fresh;
            let tfmp = match shared.as_mut() {
                Some(t) => t,
                None => {
                    fresh = TfmPvalue::new(&st.pssm);
                    &mut fresh
                }
            };
            let mut its = Vec::new();
            for it in tfmp.approximate_pvalue(s) {
                let stop = it.converged || it.granularity <= MIN_G * 2.0;
                its.push(it);
                if stop {
                    break;
                }
            }
            its
        });
        let its = match res {
            Ok(x) => x,
            Err(p) => {
                rep.violate(&format!("c12.panic:{}", panic_site(&p)), case, format!("panic in approximate_pvalue({}): {}", s, p), st.witness(alpha, J::obj().set("score", J::f(s))));
                return;
            }
        };
        let mut converged_lower = None;
        for it in its.iter() {
            rep.cover("iterations.checked");
            let g = it.granularity;
            let (pmin, pmax) = (*it.range.start(), *it.range.end());
            let lo = ex.sf(s + (m + 1.0) * g);
            let hi = ex.sf(s - (m + 2.0) * g);
            let wit = || {
                st.witness(
                    alpha,
                    J::obj()
                        .set("score", J::f(s))
                        .set("granularity", J::f(g))
                        .set("pmin", J::f(pmin))
                        .set("pmax", J::f(pmax))
                        .set("exact_lower", J::f(lo))
                        .set("exact_upper", J::f(hi))
                        .set("converged", J::Bool(it.converged))
                        .set("object", J::s(if shared.is_some() { "reused across the queries of this case (with other calls in between)" } else { "fresh" })),
                )
            };
            if !(pmin >= -EPS && pmax <= 1.0 + noise && pmin <= pmax + EPS) {
                rep.violate("c12.range_order", case, format!("score {} granularity {}: range [{}, {}] is not an ordered sub-range of [0,1]", s, g, pmin, pmax), wit());
                return;
            }
            if lt(pmin, lo, noise) {
                let ignored = st.ex_nowild.as_ref().map_or(false, |a| !lt(pmin, a.sf(s + (m + 1.0) * g), noise));
                rep.violate(if ignored { "c12.wildcard_symbol_ignored" } else { "c12.lower_bound" }, case, format!("score {} granularity {}: pmin {} < P(S >= s+(M+1)g) = {}", s, g, pmin, lo), wit());
                return;
            }
            if gt(pmax, hi, noise) {
                let ignored = st.ex_nowild.as_ref().map_or(false, |a| !gt(pmax, a.sf(s - (m + 2.0) * g), noise));
                rep.violate(if ignored { "c12.wildcard_symbol_ignored" } else { "c12.upper_bound" }, case, format!("score {} granularity {}: pmax {} > P(S >= s-(M+2)g) = {}", s, g, pmax, hi), wit());
                return;
            }
            if it.converged {
                rep.cover("converged.observed");
                converged_lower = Some(pmin);
            }
        }
        if let Some(lower) = converged_lower {
            rep.cover("pvalue.checked");
            match guard(|| TfmPvalue::new(&st.pssm).pvalue(s)) {
                Err(p) => {
                    rep.violate(&format!("c12.panic:{}", panic_site(&p)), case, format!("panic in pvalue({}): {}", s, p), st.witness(alpha, J::obj().set("score", J::f(s))));
                    return;
                }
                Ok(pv) => {
                    if shared.is_none() && pv != lower {
                        rep.violate("c12.final_pvalue", case, format!("pvalue({}) = {} but the converged iteration reported {}", s, pv, lower), st.witness(alpha, J::obj().set("score", J::f(s))));
                        return;
                    }
                }
            }
            if let Some(t) = shared.as_mut() {
                // (not compared with `lower` for equality: the hash maps of a reused object iterate in
                // another order, sums differ in the last place and the exact-equality convergence test
                // may stop one step earlier or later; every step obeys the bounds of the coarsest one)
                if let Ok(pv) = guard(|| t.pvalue(s)) {
                    // ... but legitimate differences are confined to the last place: whichever step
                    // converges, its point range lies inside the point range observed before. The
                    // answer of the reused object must be the converged bound up to rounding
                    if (pv - lower).abs() > 1e-9 * lower.abs().max(1e-300) + 1e-300 {
                        rep.violate("c12.final_pvalue", case, format!("pvalue({}) on the reused object = {} but the refinement just observed on the same object converged on {}", s, pv, lower), st.witness(alpha, J::obj().set("score", J::f(s))));
                        return;
                    }
                    let lo = ex.sf(s + (m + 1.0) * 0.1);
                    let hi = ex.sf(s - (m + 2.0) * 0.1);
                    if lt(pv, lo, noise) || gt(pv, hi, noise) {
                        let ignored = st.ex_nowild.as_ref().map_or(false, |a| !lt(pv, a.sf(s + (m + 1.0) * 0.1), noise) && !gt(pv, a.sf(s - (m + 2.0) * 0.1), noise));
                        rep.violate(if ignored { "c12.wildcard_symbol_ignored" } else { "c12.final_pvalue" }, case, format!("pvalue({}) on the reused object = {} outside [{}, {}] (bounds at granularity 0.1)", s, pv, lo, hi), st.witness(alpha, J::obj().set("score", J::f(s))));
                        return;
                    }
                }
            }
        }
    }
    rep.sample(|| st.witness(alpha, J::obj().set("attainable_scores", J::u(ex.scores.len())).set("words", J::UInt(ex.words))).set("case", J::UInt(case)));
}

/// Signature of the open finding KF-C13-window-exhausted-above: `lookup_score` indexes
/// `keys[keys.len()]` ("the len is N but the index is N") because the probability mass above the
/// score window inherited from the coarser step already exceeds p. It is the inherent windowing
/// limitation of the ported algorithm iff the frozen reference copy (tfm_ref) panics the same way
/// on the same query from a fresh object; any other panic, or one the reference does not share, is
/// a new violation.
fn keys_len_panic(msg: &str) -> bool {
    if let Some(i) = msg.find("the len is ") {
        let rest = &msg[i + 11..];
        let a: String = rest.chars().take_while(|c| c.is_ascii_digit()).collect();
        if let Some(j) = rest.find("but the index is ") {
            let b: String = rest[j + 17..].chars().take_while(|c| c.is_ascii_digit()).collect();
            return !a.is_empty() && a == b;
        }
    }
    false
}

fn reference_panics_alike<A: Alphabet>(st: &Setup<A>, p: f64) -> bool {
    let r = guard(|| {
        let mut t = crate::tfm_ref::TfmPvalue::new(&st.pssm);
        for x in t.approximate_score(p) {
            if x.converged || x.granularity <= MIN_G * 2.0 {
                break;
            }
        }
    });
    match r {
        Err(m) => keys_len_panic(&m),
        Ok(()) => false,
    }
}

fn c13_panic_kind<A: Alphabet>(st: &Setup<A>, msg: &str, p: Option<f64>) -> String {
    let in_lib = panic_site(msg).ends_with("lightmotif-tfmpvalue/src/lib.rs");
    if in_lib && keys_len_panic(msg) {
        // the disturbing calls use p = 0.3 and p = 0.01
        let ps: Vec<f64> = match p {
            Some(p) => vec![p],
            None => vec![0.3, 0.01],
        };
        if ps.iter().any(|&q| reference_panics_alike(st, q)) {
            return "c13.window_exhausted_above.panic".to_string();
        }
    }
    format!("c13.panic:{}", panic_site(msg))
}

fn case13<A: Alphabet>(case: u64, rng: &mut Rng, rep: &mut Report, alpha: &str, max_m: usize) {
    rep.cover(&format!("alphabet.{}", alpha));
    let st = match setup::<A>(rng, rep, max_m) {
        Some(s) => s,
        None => return,
    };
    let ex = &st.ex;
    let m = st.m as f64;
    let bg_sum: f64 = st.bgv.iter().map(|&x| x as f64).sum();
    let noise = EPS + 2.0 * m * (bg_sum - 1.0).abs();
    let mut ps: Vec<(f64, &str)> = Vec::new();
    // (long motifs - the nearly-flat-rows class - get many in-between p-values: their refinement
    // windows are the tight ones)
    let n_between = if st.m >= 7 { 36 } else { 6 };
    for _ in 0..n_between {
        let i = rng.below(ex.tail.len());
        let t = ex.tail[i].min(1.0);
        if t > 0.0 && t < 1.0 {
            ps.push((t, "p.attainable_tail"));
        }
        if i + 1 < ex.tail.len() {
            let mid = (ex.tail[i] + ex.tail[i + 1]) / 2.0;
            if mid > 0.0 && mid < 1.0 {
                ps.push((mid, "p.between_tails"));
            }
        }
    }
    for _ in 0..4 {
        ps.push((10f64.powf(-rng.f64() * 6.0).min(0.999), "p.log_uniform"));
    }
    // the smallest attainable tails (the best few words) and values between them: tiny under a
    // skewed background
    let nt = ex.tail.len();
    for kk in 0..3usize.min(nt) {
        let t = ex.tail[nt - 1 - kk];
        if t > 0.0 && t < 1.0 {
            ps.push((t, "p.smallest_tails"));
            if kk > 0 {
                ps.push(((t + ex.tail[nt - kk]) / 2.0, "p.smallest_tails"));
            }
        }
    }
    let min_tail = *ex.tail.last().unwrap();
    let mut shared: Option<TfmPvalue<A, &ScoringMatrix<A>>> = if rng.chance(0.5) { Some(TfmPvalue::new(&st.pssm)) } else { None };
    let mut shared_ref: Option<crate::tfm_ref::TfmPvalue<A, &ScoringMatrix<A>>> = shared.as_ref().map(|_| crate::tfm_ref::TfmPvalue::new(&st.pssm));
    for (p, key) in ps {
        rep.eval();
        rep.cover(key);
        if p >= min_tail {
            rep.nontrivial(st.digest(alpha, p));
        }
        if let Some(t) = shared.as_mut() {
            match disturb(rng, rep, &st, t) {
                Err(pn) => {
                    rep.violate(&c13_panic_kind(&st, &pn, None), case, format!("panic in a query on a reused object: {}", pn), st.witness(alpha, J::Null));
                    return;
                }
                Ok(ops) => disturb_ref(&ops, &st, shared_ref.as_mut().unwrap()),
            }
        }
        // the reference copy goes through the same refinement (same object history)
        let ref_res: Option<Result<Vec<(f64, f64, bool)>, String>> = shared_ref.as_mut().map(|t| {
            guard(|| {
                let mut v = Vec::new();
                for x in t.approximate_score(p) {
                    let stop = x.converged || x.granularity <= MIN_G * 2.0;
                    v.push((x.score, x.granularity, x.converged));
                    if stop {
                        break;
                    }
                }
                v
            })
        });
        // the frozen reference copy, driven through the same object history, runs into the same
        // "index == len" panic: the exhausted-window limitation, not a deviation of the library
        let ref_panics_alike_same_history = matches!(&ref_res, Some(Err(m)) if keys_len_panic(m));
        let ref_its: Option<Vec<(f64, f64, bool)>> = ref_res.and_then(|r| r.ok());
        let res = guard(|| {
            let mut fresh;
            let tfmp = match shared.as_mut() {
                Some(t) => t,
                None => {
                    fresh = TfmPvalue::new(&st.pssm);
                    &mut fresh
                }
            };
            let mut its = Vec::new();
            for it in tfmp.approximate_score(p) {
                let stop = it.converged || it.granularity <= MIN_G * 2.0;
                its.push(it);
                if stop {
                    break;
                }
            }
            its
        });
        let its = match res {
            Ok(x) => x,
            Err(pn) => {
                let kind = if ref_panics_alike_same_history && keys_len_panic(&pn) && panic_site(&pn).ends_with("lightmotif-tfmpvalue/src/lib.rs") {
                    "c13.window_exhausted_above.panic".to_string()
                } else {
                    c13_panic_kind(&st, &pn, Some(p))
                };
                rep.violate(&kind, case, format!("panic in approximate_score({}): {}", p, pn), st.witness(alpha, J::obj().set("p", J::f(p)).set("object", J::s(if shared.is_some() { "reused" } else { "fresh" }))));
                return;
            }
        };
        let mut converged_t = None;
        for it in its.iter() {
            rep.cover("iterations.checked");
            let g = it.granularity;
            let t = it.score;
            let d = (m + 2.0) * g;
            let upper_tail = ex.sf(t + d);
            let wit = |extra: J| st.witness(alpha, J::obj().set("p", J::f(p)).set("granularity", J::f(g)).set("threshold", J::f(t)).set("converged", J::Bool(it.converged)).set("object", J::s(if shared.is_some() { "reused" } else { "fresh" })).set("more", extra));
            if gt(upper_tail, p, noise) {
                let ignored = st.ex_nowild.as_ref().map_or(false, |a| !gt(a.sf(t + d), p, noise));
                rep.violate(if ignored { "c13.wildcard_symbol_ignored" } else { "c13.upper_side" }, case, format!("p {} granularity {}: threshold {} but P(S >= t+d) = {} > p (d = {})", p, g, t, upper_tail, d), wit(J::Null));
                return;
            }
            if let Some(u) = ex.largest_below(t - d) {
                rep.cover("lower_side.checked");
                let lower_tail = ex.sf(u - d);
                if lt(lower_tail, p, noise) {
                    // root-cause predicate of the known finding: the failing iteration declares
                    // convergence AND the frozen copy of the reference algorithm (tfm_ref) yields exactly
                    // the same iterations, i.e. the failure is the window limitation inherent to the
                    // reference algorithm and not a deviation of the library from it
                    let same_as_reference = if shared.is_some() {
                        match &ref_its {
                            Some(v) => v.len() == its.len() && v.iter().zip(its.iter()).all(|(a, b)| a.0 == b.score && a.1 == b.granularity && a.2 == b.converged),
                            None => false,
                        }
                    } else {
                        let r = guard(|| {
                            let mut t = crate::tfm_ref::TfmPvalue::new(&st.pssm);
                            let mut v = Vec::new();
                            for x in t.approximate_score(p) {
                                let stop = x.converged || x.granularity <= MIN_G * 2.0;
                                v.push((x.score, x.granularity, x.converged));
                                if stop {
                                    break;
                                }
                            }
                            v
                        });
                        match r {
                            Ok(v) => v.len() == its.len() && v.iter().zip(its.iter()).all(|(a, b)| a.0 == b.score && a.1 == b.granularity && a.2 == b.converged),
                            Err(_) => false,
                        }
                    };
                    let ignored = st.ex_nowild.as_ref().map_or(false, |a| match a.largest_below(t - d) {
                        None => true,
                        Some(u2) => !lt(a.sf(u2 - d), p, noise),
                    });
                    let kind = if ignored {
                        "c13.wildcard_symbol_ignored"
                    } else if it.converged && same_as_reference {
                        "c13.lower_side.converged_skips_attainable_score"
                    } else {
                        "c13.lower_side"
                    };
                    rep.violate(
                        kind,
                        case,
                        format!(
                            "p {} granularity {}: threshold {} skips the attainable score u = {} whose tail P(S >= u-d) = {} is still < p (d = {}, converged = {})",
                            p, g, t, u, lower_tail, d, it.converged
                        ),
                        wit(J::obj().set("u", J::f(u)).set("tail_at_u_minus_d", J::f(lower_tail))),
                    );
                    return;
                }
            }
            if it.converged {
                rep.cover("converged.observed");
                converged_t = Some(t);
            }
        }
        if let Some(t) = converged_t {
            rep.cover("score.checked");
            match guard(|| TfmPvalue::new(&st.pssm).score(p)) {
                Err(pn) => {
                    rep.violate(&c13_panic_kind(&st, &pn, Some(p)), case, format!("panic in score({}): {}", p, pn), st.witness(alpha, J::obj().set("p", J::f(p))));
                    return;
                }
                Ok(sc) => {
                    if shared.is_none() && sc != t {
                        rep.violate("c13.final_score", case, format!("score({}) = {} but the converged iteration reported {}", p, sc, t), st.witness(alpha, J::obj().set("p", J::f(p))));
                        return;
                    }
                }
            }
            if let Some(tt) = shared.as_mut() {
                // (see C12: no equality with the earlier refinement on a reused object)
                if let Some(r) = shared_ref.as_mut() {
                    let _ = guard(|| r.score(p));
                }
                if let Ok(sc) = guard(|| tt.score(p)) {
                    let d = (m + 2.0) * 0.1;
                    if gt(ex.sf(sc + d), p, noise) {
                        let ignored = st.ex_nowild.as_ref().map_or(false, |a| !gt(a.sf(sc + d), p, noise));
                        rep.violate(if ignored { "c13.wildcard_symbol_ignored" } else { "c13.final_score" }, case, format!("score({}) on the reused object = {} but P(S >= t+d) = {} > p at d = (M+2) x 0.1", p, sc, ex.sf(sc + d)), st.witness(alpha, J::obj().set("p", J::f(p))));
                        return;
                    }
                }
            }
        }
    }
    rep.sample(|| st.witness(alpha, J::obj().set("attainable_scores", J::u(ex.scores.len())).set("words", J::UInt(ex.words))).set("case", J::UInt(case)));
}

pub fn run12(cfg: &Config) -> Report {
    let n = cfg.n(1500, 40_000) as u64;
    let max_dna = if cfg.thorough() { 8 } else { 6 };
    run_cases(cfg, n, |case, rng, rep| {
        if case % 20 == 13 {
            case12::<crate::iowide::Wide40>(case, rng, rep, "user_defined_40", 2)
        } else if case % 10 == 7 {
            case12::<crate::model::Abc6>(case, rng, rep, "user_defined_6", 5)
        } else if case % 5 == 4 {
            case12::<Protein>(case, rng, rep, "protein", 3)
        } else {
            case12::<Dna>(case, rng, rep, "dna", max_dna)
        }
    })
}

pub fn run13(cfg: &Config) -> Report {
    let n = cfg.n(2500, 80_000) as u64;
    let max_dna = if cfg.thorough() { 8 } else { 6 };
    run_cases(cfg, n, |case, rng, rep| {
        if case % 20 == 13 {
            case13::<crate::iowide::Wide40>(case, rng, rep, "user_defined_40", 2)
        } else if case % 10 == 7 {
            case13::<crate::model::Abc6>(case, rng, rep, "user_defined_6", 5)
        } else if case % 5 == 4 {
            case13::<Protein>(case, rng, rep, "protein", 3)
        } else {
            case13::<Dna>(case, rng, rep, "dna", max_dna)
        }
    })
}
