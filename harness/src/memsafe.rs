//! C06 - workload for the memory checkers (AddressSanitizer, valgrind memcheck, Miri, dev-profile
//! alignment assertions). The deciding oracle is the instrumentation; the functional oracles of the
//! other monitors run alongside so that a checker report and a wrong value are both visible.
use lightmotif::abc::{Alphabet, Background, Dna, Protein};
use lightmotif::num::{U16, U32};
use lightmotif::pli::{Maximum, Pipeline, Score, Stripe, Threshold};
use lightmotif::pwm::ScoringMatrix;
use lightmotif::scan::Scanner;
use lightmotif::scores::StripedScores;
use lightmotif::seq::{EncodedSequence, StripedSequence};

use crate::common::*;
use crate::json::J;
use crate::model::*;
use crate::rng::Rng;

pub const RULE: &str = "case = one in-contract operation sequence over the safe public API, run under a memory checker: encode (exact-capacity byte inputs, lengths around multiples of 16/32), stripe / stripe_into (every arm; L >= 993 with EVERY residue mod 32 for the AVX2 transpose path; reuse of larger and smaller buffers), configure / configure_wrap (wrap exactly M-1, wrap beyond the 32 spare rows -> reallocation, capacity == rows after clone), f32 and u8 scoring on every arm incl. forced dispatch arms (full scans, last-row-only and random row sub-ranges, 32 and 16 columns, fresh / cloned / exact-capacity sequences and matrices), score_position on exact-capacity clones in every look-ahead state, reading full and sub-range results through iter / rev / nth / unstripe / Vec::from (also after shrinking the buffer by hand), max / argmax / threshold, scanner next / max, sampler steps, sample(), DenseMatrix histories, to_discrete, score distributions and TFM-PVALUE. All inputs are allocated with exact capacity (clone / with_capacity) so that a red zone follows the last element. Verdict = reports of the checker (ASan / memcheck / Miri), panics of the dev-profile alignment assertions, or a shard dying on a signal. Non-trivial = case that executed at least one unsafe kernel; distinct = distinct (op family, alphabet, L, M, arm).";

pub const REQUIRED: &[&str] = &[
    "family.stripe_score", "family.striped_histories", "family.encode", "family.max_threshold", "family.scanner",
    "family.sampler", "family.dense", "family.misc", "scores.accessors", "score_position.lookahead_states",
];

#[derive(Clone, Copy, PartialEq)]
pub enum Mode {
    Native,
    Asan,
    Valgrind,
    Miri,
}

fn mode_of(cfg: &Config) -> Mode {
    match cfg.extra_value("mode").as_deref() {
        Some("asan") => Mode::Asan,
        Some("valgrind") => Mode::Valgrind,
        Some("miri") => Mode::Miri,
        _ => Mode::Native,
    }
}

/// arms usable under the current checker: Miri cannot interpret the sfence / stream-store kernels,
/// so there only the generic implementations (direct and through the forced dispatcher) run.
fn score_arms(mode: Mode) -> Vec<Arm> {
    if mode == Mode::Miri {
        vec![Arm::Generic, Arm::DispGeneric]
    } else {
        ARMS32.to_vec()
    }
}

fn stripe_score<A: Alphabet>(case: u64, rng: &mut Rng, rep: &mut Report, alpha: &str, mode: Mode, l: usize, m: usize) {
    let k = k_of::<A>();
    rep.eval();
    rep.cover("family.stripe_score");
    let kind = *rng.pick(&[MatKind::LogOdds, MatKind::Finite, MatKind::SmallInt]);
    let rows = gen_matrix(rng, k, m, kind);
    // clone => exact capacity of the backing Vec
    let pssm: ScoringMatrix<A> = scoring::<A>(&rows).clone();
    let seq = gen_seq(rng, k, l, SeqKind::Wild5);
    let enc: EncodedSequence<A> = encoded::<A>(&seq);
    let wit = |what: &str| J::obj().set("alphabet", J::s(alpha)).set("L", J::u(l)).set("M", J::u(m)).set("op", J::s(what));
    let mut d = Digest::new();
    d.bytes(b"stripe_score").bytes(alpha.as_bytes()).u(l as u64).u(m as u64);
    rep.nontrivial(d.get());

    // stripers
    let mut stripers: Vec<(String, Box<dyn Fn(&EncodedSequence<A>) -> StripedSequence<A, U32>>)> = Vec::new();
    stripers.push(("generic".into(), Box::new(|e| stripe_generic::<A, U32>(e))));
    if mode != Mode::Miri {
        stripers.push(("avx2".into(), Box::new(|e| Pipeline::<A, _>::avx2().unwrap().stripe(e))));
        stripers.push(("to_striped[auto]".into(), Box::new(|e| e.to_striped())));
        stripers.push((
            "dispatch[sse2]".into(),
            Box::new(|e| {
                force(Arm::DispSse2);
                let r = Pipeline::<A, _>::dispatch().stripe(e);
                unforce();
                r
            }),
        ));
    } else {
        stripers.push((
            "to_striped[generic]".into(),
            Box::new(|e| {
                force(Arm::DispGeneric);
                let r = e.to_striped();
                unforce();
                r
            }),
        ));
    }
    let exact = exact_scores(&rows, &seq);
    for (sname, striper) in stripers.iter() {
        let st0 = match guard(|| striper(&enc)) {
            Ok(s) => s,
            Err(p) => {
                unforce();
                rep.violate(&format!("c06.panic:{}", panic_site(&p)), case, format!("panic in stripe ({}): {}", sname, p), wit("stripe"));
                continue;
            }
        };
        // score_position indexes the sequence and needs no look-ahead rows: call it on exact-capacity
        // clones in every look-ahead state (none, fewer rows than this motif needs, enough), at the
        // positions whose window runs past the end of a column
        if !exact.is_empty() {
            for state in 0..3 {
                let mut sq = st0.clone();
                match state {
                    0 => {}
                    1 if m >= 3 => sq.configure_wrap(rng.range(1, m - 2)),
                    _ => sq.configure_wrap(m.saturating_sub(1)),
                }
                let sq = sq.clone();
                let rws = sq.matrix().rows() - sq.wrap();
                let mut positions: Vec<usize> = (0..6).map(|_| rng.below(exact.len())).collect();
                for col in [0usize, 1, 15, 30, 31] {
                    for back in 1..=m.min(rws.max(1)).min(3) {
                        let cand = (col + 1) * rws;
                        if cand >= back && cand - back < exact.len() {
                            positions.push(cand - back);
                        }
                    }
                }
                positions.push(exact.len() - 1);
                for i in positions {
                    match guard(|| pssm.score_position(&sq, i)) {
                        Err(p) => {
                            rep.violate(&format!("c06.panic:{}", panic_site(&p)), case, format!("panic in score_position({}) (look-ahead rows {}): {}", i, sq.wrap(), p), wit("score_position"));
                            break;
                        }
                        Ok(got) => {
                            let (ex, abs) = exact[i];
                            let ok = if ex == f64::NEG_INFINITY { got == f32::NEG_INFINITY } else { ((got as f64) - ex).abs() <= tol(m, abs) };
                            if !ok {
                                rep.violate("c06.value", case, format!("score_position({}) = {} expected {} (look-ahead rows {}, width {})", i, got, ex, sq.wrap(), m), wit("score_position"));
                                break;
                            }
                        }
                    }
                }
                rep.cover("score_position.lookahead_states");
            }
        }
        // three storage situations for the same logical sequence
        let mut fresh = st0.clone(); // clone: capacity == rows, configure has to reallocate
        fresh.configure(&pssm);
        let mut spare = st0; // keeps the spare capacity chosen by the striper
        spare.configure_wrap(m.saturating_sub(1));
        let tight = spare.clone(); // configured, then cloned: no row beyond the last look-ahead row
        for (vname, st) in [("cloned-then-configured", &fresh), ("configured", &spare), ("configured-then-cloned", &tight)] {
            let r_rows = st.matrix().rows() - st.wrap();
            for arm in score_arms(mode) {
                let mut out = StripedScores::<f32, U32>::empty();
                let ranges: Vec<Option<std::ops::Range<usize>>> = if r_rows > 0 {
                    let a = rng.below(r_rows);
                    vec![None, Some(r_rows - 1..r_rows), Some(a..rng.range(a, r_rows)), Some(0..0)]
                } else {
                    vec![None]
                };
                for r in ranges {
                    let res = guard(|| score32::<A>(arm, &pssm, st, r.clone(), &mut out));
                    unforce();
                    rep.cover(&format!("score.f32.{}", arm.name()));
                    if let Err(p) = res {
                        rep.violate(
                            &format!("c06.panic:{}", panic_site(&p)),
                            case,
                            format!("panic in f32 scoring ({}, sequence {} / {}, rows {:?}): {}", arm.name(), sname, vname, r, p),
                            wit("score"),
                        );
                        continue;
                    }
                    // read the result (full scan or row sub-range, where the matrix holds fewer rows
                    // than the sequence has positions) through every public accessor
                    let res = guard(|| {
                        let mut acc = 0u64;
                        for x in out.iter() {
                            acc = acc.wrapping_add(x.to_bits() as u64);
                        }
                        for x in out.iter().rev().take(70) {
                            acc = acc.wrapping_add(x.to_bits() as u64);
                        }
                        if let Some(x) = out.iter().nth(33) {
                            acc = acc.wrapping_add(x.to_bits() as u64);
                        }
                        acc = acc.wrapping_add(out.unstripe().len() as u64);
                        acc = acc.wrapping_add(Vec::from(out.clone()).len() as u64);
                        // a buffer shrunk by hand below the number of positions it is said to hold
                        let mut small = out.clone();
                        let keep = small.matrix().rows() / 2;
                        let said = small.max_index();
                        small.resize(keep, said);
                        acc = acc.wrapping_add(small.iter().count() as u64);
                        acc = acc.wrapping_add(small.unstripe().len() as u64);
                        std::hint::black_box(acc)
                    });
                    rep.cover("scores.accessors");
                    if let Err(p) = res {
                        rep.violate(&format!("c06.panic:{}", panic_site(&p)), case, format!("panic while reading scores ({}, rows {:?}): {}", arm.name(), r, p), wit("read"));
                        continue;
                    }
                    if r.is_none() && !exact.is_empty() {
                        // value check on a few positions: a wrong value under a checker is reported too
                        for _ in 0..4 {
                            let i = rng.below(exact.len());
                            let got = out[i] as f64;
                            let (ex, abs) = exact[i];
                            let ok = if ex == f64::NEG_INFINITY { got == f64::NEG_INFINITY } else { (got - ex).abs() <= tol(m, abs) };
                            if !ok {
                                rep.violate("c06.value", case, format!("{} ({} / {}): position {} scores {} expected {}", arm.name(), sname, vname, i, got, ex), wit("score"));
                            }
                        }
                        // maximum / argmax / threshold over the fresh result
                        let res = guard(|| {
                            // (under Miri the unforced dispatcher would pick the SSE2 arm: keep it generic)
                            force(if mode == Mode::Miri { Arm::DispGeneric } else { arm });
                            let r = (out.max(), out.argmax(), out.threshold(0.0).len());
                            unforce();
                            let g = Pipeline::<Dna, _>::generic();
                            let _ = (g.argmax(&out), g.threshold(&out, 1.0).len());
                            if mode != Mode::Miri {
                                let s = Pipeline::<Dna, _>::sse2().unwrap();
                                let a = Pipeline::<Dna, _>::avx2().unwrap();
                                let _ = (s.argmax(&out), a.argmax(&out), a.max(&out));
                            }
                            r
                        });
                        unforce();
                        if let Err(p) = res {
                            rep.violate(&format!("c06.panic:{}", panic_site(&p)), case, format!("panic in max/argmax/threshold: {}", p), wit("max"));
                        }
                    }
                }
            }
        }
    }
    // 16 columns: generic and sse2
    {
        let mut st: StripedSequence<A, U16> = stripe_generic(&enc);
        st.configure(&pssm);
        let st = st.clone();
        let arms: &[Arm] = if mode == Mode::Miri { &[Arm::Generic] } else { &[Arm::Generic, Arm::Sse2] };
        for &arm in arms {
            let mut out = StripedScores::<f32, U16>::empty();
            let res = guard(|| {
                score16::<A>(arm, &pssm, &st, None, &mut out);
                let r_rows = st.matrix().rows() - st.wrap();
                if r_rows > 0 {
                    let mut sub = StripedScores::<f32, U16>::empty();
                    score16::<A>(arm, &pssm, &st, Some(r_rows - 1..r_rows), &mut sub);
                }
                if mode != Mode::Miri {
                    let _ = Pipeline::<Dna, _>::sse2().unwrap().argmax(&out);
                }
            });
            if let Err(p) = res {
                rep.violate(&format!("c06.panic:{}", panic_site(&p)), case, format!("panic in 16-column scoring ({}): {}", arm.name(), p), wit("score16"));
            }
        }
    }
}

fn u8_and_scan(case: u64, rng: &mut Rng, rep: &mut Report, mode: Mode, l: usize, m: usize) {
    rep.eval();
    rep.cover("family.scanner");
    let mk = *rng.pick(&[MatKind::LogOdds, MatKind::SmallInt, MatKind::FewValued]);
    let rows = gen_matrix(rng, 5, m, mk);
    let pssm: ScoringMatrix<Dna> = scoring::<Dna>(&rows).clone();
    let seq = gen_seq(rng, 5, l, SeqKind::Wild5);
    let enc = encoded::<Dna>(&seq);
    let mut st: StripedSequence<Dna, U32> = if mode == Mode::Miri { stripe_generic(&enc) } else { Pipeline::<Dna, _>::avx2().unwrap().stripe(&enc) };
    st.configure(&pssm);
    let st = st.clone();
    let dm = pssm.to_discrete();
    let wit = || J::obj().set("L", J::u(l)).set("M", J::u(m)).set("op", J::s("u8 scoring / scanner"));
    let mut d = Digest::new();
    d.bytes(b"u8").u(l as u64).u(m as u64);
    rep.nontrivial(d.get());
    let r_rows = st.matrix().rows() - st.wrap();
    let arms: Vec<Arm> = if mode == Mode::Miri { vec![Arm::Generic, Arm::DispGeneric] } else { vec![Arm::Avx2, Arm::Generic, Arm::DispGeneric, Arm::DispSse2, Arm::DispAvx2, Arm::DispAuto] };
    // u8 sums may exceed 255 on the generic kernel in a dev-profile build (known finding of C08):
    // small-integer / few-valued matrices of modest width keep this workload clear of it
    let safe_for_generic = {
        let mx: u32 = (0..m).map(|i| *dm.matrix()[i].iter().max().unwrap() as u32).sum();
        mx <= 255
    };
    for arm in arms {
        let generic_family = matches!(arm, Arm::Generic | Arm::DispGeneric | Arm::DispSse2);
        if generic_family && !safe_for_generic {
            continue;
        }
        let res = guard(|| {
            let mut out = StripedScores::<u8, U32>::empty();
            match arm {
                Arm::Avx2 => Pipeline::<Dna, _>::avx2().unwrap().score_into(&dm, &st, &mut out),
                Arm::Generic => Pipeline::<Dna, _>::generic().score_into(&dm, &st, &mut out),
                a => {
                    let p = dispatch_pipeline::<Dna>(a);
                    unforce();
                    p.score_into(&dm, &st, &mut out);
                    if r_rows > 0 {
                        let mut sub = StripedScores::<u8, U32>::empty();
                        p.score_rows_into(&dm, &st, r_rows - 1..r_rows, &mut sub);
                        let _ = (p.max(&sub), p.argmax(&sub), p.threshold(&sub, 1).len());
                        // a one-row block as the scanner builds them, read through the accessors
                        let n: usize = sub.iter().map(|&x| x as usize).sum::<usize>() + sub.unstripe().len() + Vec::from(sub.clone()).len() + sub.iter().rev().count();
                        std::hint::black_box(n);
                    }
                }
            }
            force(if mode == Mode::Miri { Arm::DispGeneric } else { arm });
            let _ = (out.max(), out.argmax(), out.threshold(200).len());
            unforce();
            if mode != Mode::Miri {
                let a = Pipeline::<Dna, _>::avx2().unwrap();
                let _ = (a.max(&out), a.argmax(&out));
            }
            // scanner under the same arm
            let arm = if mode == Mode::Miri { Arm::DispGeneric } else { arm };
            for &b in [1usize, 3, 16, 256].iter() {
                force(arm);
                let mut sc = Scanner::new(&pssm, &st);
                unforce();
                sc.threshold(-1.0e30);
                sc.block_size(b);
                let mut n = 0;
                while let Some(_) = sc.next() {
                    n += 1;
                    if n > l + 2 {
                        break;
                    }
                }
                force(arm);
                let mut sc = Scanner::new(&pssm, &st);
                unforce();
                sc.threshold(0.0);
                sc.block_size(b);
                let _ = sc.next();
                let _ = sc.max();
            }
        });
        unforce();
        if let Err(p) = res {
            rep.violate(&format!("c06.panic:{}", panic_site(&p)), case, format!("panic in u8 scoring / scanner ({}): {}", arm.name(), p), wit());
        }
    }
}

fn misc(case: u64, rng: &mut Rng, rep: &mut Report, mode: Mode) {
    rep.eval();
    rep.cover("family.misc");
    let res = guard(|| {
        // sample(): DenseMatrix::uninitialized must be fully written before it is read
        let bg = Background::<Dna>::uniform();
        let l = rng.range(0, 200);
        let s: StripedSequence<Dna, U32> = StripedSequence::sample(&mut *rng, bg.clone(), l);
        let mut total = 0usize;
        for i in 0..s.matrix().rows() {
            for c in s.matrix()[i].iter() {
                total += *c as usize;
            }
        }
        let e: EncodedSequence<Dna> = EncodedSequence::sample(&mut *rng, bg, l);
        // data-dependent branches over every cell (a definedness checker flags uninitialised ones)
        let mut odd = 0usize;
        for i in 0..s.matrix().rows() {
            for c in s.matrix()[i].iter() {
                if (*c as usize) % 2 == 1 {
                    odd += 1;
                }
            }
        }
        std::hint::black_box((e.to_string().len(), total, odd));
        // the kernels load whole rows of a sampled sequence, padding included
        let mut s = s;
        let w = 3usize;
        let small = scoring::<Dna>(&gen_matrix(rng, 5, w, MatKind::SmallInt)).clone();
        s.configure(&small);
        if mode != Mode::Miri {
            let sc = Pipeline::<Dna, _>::avx2().unwrap().score(&small, &s);
            std::hint::black_box((sc.threshold(0.0).len(), sc.max(), sc.argmax()));
        }
        let sc = Pipeline::<Dna, _>::generic().score(&small, &s);
        std::hint::black_box(Pipeline::<Dna, _>::generic().threshold(&sc, 0.0).len());
        let bgp = Background::<Protein>::uniform();
        let lp = rng.range(1, 90);
        let sp: StripedSequence<Protein, U32> = StripedSequence::sample(&mut *rng, bgp, lp);
        let _ = lightmotif::seq::SymbolCount::<Protein>::count_symbols(&sp);
        // distributions
        let m = rng.range(1, 8);
        let rows = gen_matrix(rng, 5, m, MatKind::LogOdds);
        let pssm = scoring::<Dna>(&rows).clone();
        let dist = pssm.to_score_distribution();
        let _ = (dist.pvalue(1.0), dist.score(1e-3), dist.min_pvalue());
        if mode != Mode::Miri || m <= 3 {
            let mut t = lightmotif_tfmpvalue::TfmPvalue::new(&pssm);
            let _ = t.approximate_pvalue(0.5).take(if mode == Mode::Miri { 1 } else { 3 }).count();
            let _ = t.approximate_score(0.01).take(if mode == Mode::Miri { 1 } else { 3 }).count();
        }
        let _ = pssm.to_discrete();
        let _ = pssm.reverse_complement();
    });
    if let Err(p) = res {
        rep.violate(&format!("c06.panic:{}", panic_site(&p)), case, format!("panic in sample / distribution workload: {}", p), J::Null);
    }
    let mut d = Digest::new();
    d.bytes(b"misc").u(case);
    rep.nontrivial(d.get());
}

fn lengths_for(mode: Mode, thorough: bool) -> Vec<usize> {
    let mut v: Vec<usize> = vec![0, 1, 2, 15, 16, 17, 31, 32, 33, 63, 64, 65, 95, 96, 97];
    match mode {
        Mode::Miri => {
            v.extend([100, 129]);
        }
        Mode::Valgrind => {
            v.extend([991, 992, 993, 1023, 1024, 1025, 1054, 1055, 1056, 1057, 1085, 2047, 2048, 2049]);
            if thorough {
                v.extend(2017..=2048);
            }
        }
        _ => {
            v.extend(991..=1100);
            v.extend(2017..=2080);
            v.extend([1249, 1272, 1280, 3169, 3196, 3199, 3200, 4095, 4096, 4097]);
            if thorough {
                v.extend(1101..=1300);
                v.extend(3169..=3200);
                v.extend([8191, 8192, 8193]);
            }
        }
    }
    v
}

pub fn run(cfg: &Config) -> Report {
    crate::c19::REPORT_ODD_SIZE.store(false, std::sync::atomic::Ordering::Relaxed);
    let mode = mode_of(cfg);
    // shard selection: shard=i/n keeps the cases with index % n == i
    let (si, sn) = match cfg.extra_value("shard") {
        Some(s) => {
            let mut it = s.split('/');
            (it.next().unwrap().parse::<u64>().unwrap(), it.next().unwrap().parse::<u64>().unwrap())
        }
        None => (0, 1),
    };
    let lens = lengths_for(mode, cfg.thorough());
    let widths: Vec<usize> = match mode {
        Mode::Miri => vec![1, 3, 8],
        Mode::Valgrind => vec![1, 8, 17, 33, 40],
        _ => vec![1, 2, 8, 15, 16, 17, 32, 33, 34, 64],
    };
    let n_ss = (lens.len() * 2) as u64;
    let n_other: u64 = match mode {
        Mode::Miri => 40,
        Mode::Valgrind => 120,
        _ => cfg.n(600, 6000) as u64,
    };
    let total = n_ss + n_other;
    run_cases(cfg, total, |case, rng, rep| {
        if case % sn != si {
            return;
        }
        if case < n_ss {
            let l = lens[(case / 2) as usize];
            let m = *rng.pick(&widths);
            if case % 2 == 0 {
                stripe_score::<Dna>(case, rng, rep, "dna", mode, l, m);
                u8_and_scan(case, rng, rep, mode, l.max(m), m.min(20));
            } else {
                stripe_score::<Protein>(case, rng, rep, "protein", mode, l, m);
            }
            return;
        }
        let k = case - n_ss;
        let small = mode == Mode::Miri || mode == Mode::Valgrind;
        match k % 7 {
            0 => {
                rep.cover("family.striped_histories");
                let l = if small { rng.below(200) } else { *rng.pick(&lens) };
                let maxl = if small { 300 } else { 3300 };
                if mode == Mode::Miri {
                    crate::c04::history::<Dna, U32, _>(case, rng, rep, "dna", &crate::c04::GenericStriper, l, 4, maxl);
                } else {
                    let arm = *rng.pick(&[Arm::Avx2, Arm::DispAuto, Arm::DispSse2, Arm::Generic]);
                    let via = arm == Arm::DispAuto && rng.chance(0.5);
                    crate::c04::history::<Dna, U32, _>(case, rng, rep, "dna", &crate::c04::Arm32 { arm, via_to_striped: via }, l, 6, maxl);
                    crate::c04::history::<Protein, U32, _>(case, rng, rep, "protein", &crate::c04::Arm32 { arm, via_to_striped: via }, l, 4, maxl);
                }
            }
            1 => {
                rep.cover("family.encode");
                // every byte value through the scalar decoders of both alphabets
                {
                    use lightmotif::abc::Symbol;
                    let res = guard(|| {
                        let mut ok = 0usize;
                        for b in 0..=255u8 {
                            ok += lightmotif::abc::Nucleotide::from_ascii(b).is_ok() as usize;
                            ok += lightmotif::abc::AminoAcid::from_ascii(b).is_ok() as usize;
                            ok += lightmotif::abc::Nucleotide::from_char(b as char).is_ok() as usize;
                            ok += lightmotif::abc::AminoAcid::from_char(b as char).is_ok() as usize;
                        }
                        std::hint::black_box(ok)
                    });
                    rep.cover("encode.every_byte_value_decoded");
                    if let Err(p) = res {
                        rep.violate(&format!("c06.panic:{}", panic_site(&p)), case, format!("panic while decoding single bytes: {}", p), J::Null);
                    }
                }
                // exact-capacity byte inputs around the vector widths, valid and invalid
                let l = *rng.pick(&[0usize, 1, 15, 16, 17, 31, 32, 33, 47, 48, 63, 64, 65, 95, 96, 97, 127, 128, 129, 255, 256, 257]);
                let letters = b"ACGTN";
                for invalid_at in [None, Some(0usize), Some(l / 2), Some(l.saturating_sub(1))] {
                    let mut text: Vec<u8> = Vec::with_capacity(l);
                    for _ in 0..l {
                        text.push(*rng.pick(letters));
                    }
                    if let Some(p) = invalid_at {
                        if p < l {
                            text[p] = *rng.pick(&[b'x', 0x00u8, 0x7f, 0x80, 0x81, 0xc3, 0xfe, 0xff, b' ', b'a', b'@', b'[']);
                        }
                    }
                    let text = text.into_boxed_slice();
                    rep.eval();
                    let res = guard(|| {
                        use lightmotif::pli::Encode;
                        let _ = Pipeline::<Dna, _>::generic().encode_raw(&text[..]);
                        if mode != Mode::Miri {
                            let _ = Pipeline::<Dna, _>::sse2().unwrap().encode_raw(&text[..]);
                            let _ = Pipeline::<Dna, _>::avx2().unwrap().encode_raw(&text[..]);
                            let _ = Pipeline::<Protein, _>::avx2().unwrap().encode_raw(&text[..]);
                            let _ = Pipeline::<Protein, _>::sse2().unwrap().encode(&text[..]);
                            let mut dst = vec![lightmotif::abc::Nucleotide::N; l].into_boxed_slice();
                            let _ = Pipeline::<Dna, _>::avx2().unwrap().encode_into(&text[..], &mut dst[..]);
                            let _ = Pipeline::<Dna, _>::sse2().unwrap().encode_into(&text[..], &mut dst[..]);
                            // records encoded back to back into one buffer: the destination starts
                            // anywhere (an aligned store there faults)
                            let mut wide = vec![lightmotif::abc::Nucleotide::N; l + 40].into_boxed_slice();
                            for off in [1usize, 5, 17] {
                                let _ = Pipeline::<Dna, _>::sse2().unwrap().encode_into(&text[..], &mut wide[off..off + l]);
                                let _ = Pipeline::<Dna, _>::avx2().unwrap().encode_into(&text[..], &mut wide[off..off + l]);
                                let _ = Pipeline::<Dna, _>::generic().encode_into(&text[..], &mut wide[off..off + l]);
                            }
                        }
                        for arm in [Arm::DispGeneric, Arm::DispSse2, Arm::DispAvx2] {
                            if mode == Mode::Miri && arm != Arm::DispGeneric {
                                continue;
                            }
                            force(arm);
                            let _ = EncodedSequence::<Dna>::encode(&text[..]);
                            unforce();
                        }
                    });
                    unforce();
                    if let Err(p) = res {
                        rep.violate(&format!("c06.panic:{}", panic_site(&p)), case, format!("panic while encoding {} bytes: {}", l, p), J::Null);
                    }
                    let mut d = Digest::new();
                    d.bytes(b"encode").bytes(&text);
                    rep.nontrivial(d.get());
                }
            }
            2 => {
                rep.cover("family.max_threshold");
                if mode == Mode::Asan && case % 16 == 2 {
                    // one row more than the 8-bit arg-maximum documents (it refuses with a panic):
                    // refusing is fine, reading past the matrix is not
                    let rows = 65_537usize;
                    let mut big = StripedScores::<u8, U32>::empty();
                    big.resize(rows, rows * 32);
                    big.matrix_mut()[rows - 1][31] = 200;
                    let _ = guard(|| {
                        let a = Pipeline::<Dna, _>::avx2().unwrap();
                        std::hint::black_box((a.argmax(&big), a.max(&big)))
                    });
                    let _ = guard(|| {
                        let d = Pipeline::<Dna, _>::dispatch();
                        std::hint::black_box(d.argmax(&big))
                    });
                    rep.cover("argmax.u8.beyond_row_limit");
                }
                if mode != Mode::Miri {
                    let rows = *rng.pick(&[0usize, 1, 2, 7, 8, 9, 31, 32, 33, 255, 256, 257]);
                    let fam = rng.below(7);
                    let col = rng.below(32);
                    crate::c07::synthetic_case(case, rng, rep, rows, fam, col);
                }
            }
            3 => {
                rep.cover("family.sampler");
                if mode == Mode::Miri {
                    crate::c16::short_run::<Dna>(case, rng, rep, "dna", 6, Arm::DispGeneric);
                } else {
                    let arm = DISP_ARMS[(case % 4) as usize];
                    let steps = if small { 12 } else { 80 };
                    crate::c16::short_run::<Dna>(case, rng, rep, "dna", steps, arm);
                    crate::c16::short_run::<Protein>(case, rng, rep, "protein", steps, arm);
                }
            }
            4 => {
                rep.cover("family.dense");
                for i in 0..(if small { 4 } else { 28 }) {
                    crate::c19::one_case(case * 31 + i, rng, rep, if small { 10 } else { 30 });
                }
            }
            5 => {
                rep.cover("family.scanner");
                let m = *rng.pick(&[1usize, 4, 8, 15, 17]);
                // some scans span several blocks of 256 rows (the scanner then scores row sub-ranges
                // that do not start at row 0)
                let l = if small { rng.range(m, 200) } else if rng.chance(0.3) { rng.range(8_200, 20_000) } else { rng.range(m, 2500) };
                if l > 8192 {
                    rep.cover("scanner.several_blocks");
                }
                u8_and_scan(case, rng, rep, mode, l, m);
            }
            _ => misc(case, rng, rep, mode),
        }
    })
}
