//! C19 - dense matrix storage keeps rows aligned and contents intact across operations.
//! Model-based monitor: random operation histories against a Vec<Vec<T>>.
use std::fmt::Debug;

use lightmotif::dense::{DenseMatrix, MatrixCoordinates, MatrixElement};
use lightmotif::num::{ArrayLength, U1, U16, U21, U32, U43, U5, U7};

use crate::common::*;
use crate::json::J;
use crate::rng::Rng;

pub const RULE: &str = "case = one random operation history (new / with_capacity / from_rows / resize up, down, to 0 / reserve / fill / row write / cell write via MatrixCoordinates / clone + independence / == against a rebuilt matrix / iter, rev, iter_mut, IntoIterator) on DenseMatrix<T, C> for T in {u8,u32,f32,i64} x C in {1,5,7,16,21,32,43}, checked after EVERY operation against a Vec<Vec<T>> model: rows(), columns(), every cell, surviving rows unchanged, new rows default, iteration order and length in both directions, every row pointer 32-byte aligned, stride >= C and stride*size_of::<T>() a multiple of 32. Non-trivial = history with at least one resize and one write; distinct = distinct (type, C, op sequence).";

pub const REQUIRED: &[&str] = &[
    "op.new", "op.with_capacity", "op.with_capacity.below_rows", "check.self_equality", "op.from_rows", "op.from_rows.matrix_iterator", "type.user_defined", "type.user_defined_3_bytes", "op.resize_up", "op.resize_down", "op.resize_zero", "op.reserve",
    "op.fill", "op.fill.byte_uniform_value", "op.row_write", "op.cell_write", "op.clone", "op.clone_from", "op.eq", "op.iter", "op.iter_rev", "op.iter_mut",
    "op.into_iter", "type.u8", "type.u32", "type.f32", "type.i64", "cols.1", "cols.5", "cols.7", "cols.16", "cols.21",
    "cols.32", "cols.43", "class.padded_stride",
];

pub trait Elem: MatrixElement + PartialEq + Debug + Send + 'static {
    fn from_u(x: u64) -> Self;
    fn name() -> &'static str;
    /// a value that is not equal to itself, if the type has one
    fn unequal_to_itself() -> Option<Self> {
        None
    }
    /// values whose bytes are all identical (0, all-ones, 0x0101..): candidates for a memset path
    fn byte_uniform(i: usize) -> Self;
    /// two values that compare equal although their bytes differ, if the type has such a pair
    fn equal_with_other_bytes() -> Option<(Self, Self)> {
        None
    }
}
impl Elem for u8 {
    fn byte_uniform(i: usize) -> Self {
        [0u8, 255, 1, 0x5a][i % 4]
    }
    fn from_u(x: u64) -> Self {
        (x % 251) as u8 + 1
    }
    fn name() -> &'static str {
        "u8"
    }
}
impl Elem for u32 {
    fn byte_uniform(i: usize) -> Self {
        [0u32, u32::MAX, 0x0101_0101, 0x5a5a_5a5a][i % 4]
    }
    fn from_u(x: u64) -> Self {
        (x % 4_000_000_007) as u32 | 1
    }
    fn name() -> &'static str {
        "u32"
    }
}
impl Elem for f32 {
    fn byte_uniform(i: usize) -> Self {
        [0.0f32, f32::from_bits(0x0101_0101), f32::from_bits(0x4040_4040), 0.0][i % 4]
    }
    fn unequal_to_itself() -> Option<Self> {
        Some(f32::NAN)
    }
    fn equal_with_other_bytes() -> Option<(Self, Self)> {
        Some((0.0, -0.0))
    }
    fn from_u(x: u64) -> Self {
        ((x % 100_003) as f32) * 0.25 + 0.5
    }
    fn name() -> &'static str {
        "f32"
    }
}
/// a user-defined cell type (MatrixElement is a blanket over Default + Copy) whose default value
/// is not the all-zero bit pattern
#[derive(Clone, Copy, Debug, PartialEq)]
pub struct Tagged(pub u16, pub u8);
impl Default for Tagged {
    fn default() -> Self {
        Tagged(0x0101, 7)
    }
}
impl Elem for Tagged {
    fn byte_uniform(i: usize) -> Self {
        [Tagged(0, 0), Tagged(0xffff, 0xff), Tagged(0x0101, 1), Tagged(0x5a5a, 0x5a)][i % 4]
    }
    fn from_u(x: u64) -> Self {
        Tagged((x % 65_521) as u16, (x % 251) as u8)
    }
    fn name() -> &'static str {
        "user_defined"
    }
}
#[derive(Clone, Copy, Debug, PartialEq, Default)]
pub struct Rgb(pub [u8; 3]);
impl Elem for Rgb {
    fn byte_uniform(i: usize) -> Self {
        [Rgb([0; 3]), Rgb([0xff; 3]), Rgb([1; 3]), Rgb([0x5a; 3])][i % 4]
    }
    fn from_u(x: u64) -> Self {
        Rgb([(x % 251) as u8 + 1, (x / 251 % 251) as u8, (x / 63001 % 251) as u8])
    }
    fn name() -> &'static str {
        "user_defined_3_bytes"
    }
}
impl Elem for i64 {
    fn byte_uniform(i: usize) -> Self {
        [0i64, -1, 0x0101_0101_0101_0101, 0x5a5a_5a5a_5a5a_5a5a][i % 4]
    }
    fn from_u(x: u64) -> Self {
        (x as i64) | 1
    }
    fn name() -> &'static str {
        "i64"
    }
}

/// `stride()` counts elements: when the element size does not divide the padded row size (3-, 6-,
/// 12-byte user-defined elements) it cannot express the row pitch, and the flat view `fill()` writes
/// through is out of step with the rows after the first one (known finding KF-C19-odd-size-element)
fn exact_pitch<T: Elem, C: ArrayLength + PartialEq>(m: &DenseMatrix<T, C>) -> bool {
    (m.stride() * std::mem::size_of::<T>()) % 32 == 0
}

/// fill(v) where the flat view is exact; row by row otherwise (so that the rest of the history can
/// still be judged for such element types)
fn do_fill<T: Elem, C: ArrayLength + PartialEq>(m: &mut DenseMatrix<T, C>, v: T) {
    if exact_pitch(m) {
        m.fill(v);
    } else {
        // the real fill() still runs, on a throw-away copy (its writes must stay inside the
        // allocation whatever they hold: the memory checkers watch this)
        let mut scratch = m.clone();
        scratch.fill(v);
        std::hint::black_box(&scratch);
        for row in m.iter_mut() {
            for x in row.iter_mut() {
                *x = v;
            }
        }
    }
}

/// the memory-safety workload (C06) re-uses these histories: the value-level finding is not its business
pub static REPORT_ODD_SIZE: std::sync::atomic::AtomicBool = std::sync::atomic::AtomicBool::new(true);

/// the two observable consequences, reported under their own kinds
fn odd_size_probe<T: Elem, C: ArrayLength + PartialEq>(case: u64, rep: &mut Report, tname: &str) {
    let c = C::USIZE;
    let mut m = DenseMatrix::<T, C>::new(3);
    let stride = m.stride();
    let wit = || J::obj().set("type", J::s(tname)).set("element_bytes", J::u(std::mem::size_of::<T>())).set("columns", J::u(c)).set("stride", J::u(stride));
    let pitch = (&m[1][0] as *const T as usize) - (&m[0][0] as *const T as usize);
    if m.stride() * std::mem::size_of::<T>() != pitch {
        rep.violate("c19.odd_size_element.stride", case, format!("stride() = {} elements of {} bytes = {} bytes, but consecutive rows are {} bytes apart (not a whole number of alignment units)", m.stride(), std::mem::size_of::<T>(), m.stride() * std::mem::size_of::<T>(), pitch), wit());
    }
    let v = T::from_u(0x0102_0305);
    m.fill(v);
    if let Some((i, j)) = (0..3).flat_map(|i| (0..c).map(move |j| (i, j))).find(|&(i, j)| m[i][j] != v) {
        rep.violate("c19.odd_size_element.fill", case, format!("fill({:?}) on a 3-row matrix: cell ({},{}) holds {:?}", v, i, j, m[i][j]), wit());
    }
    rep.cover("class.element_size_not_dividing_row_size");
}

fn check_state<T: Elem, C: ArrayLength + PartialEq>(
    m: &DenseMatrix<T, C>,
    model: &[Vec<T>],
    op: &str,
) -> Result<(), String> {
    let c = C::USIZE;
    if m.rows() != model.len() {
        return Err(format!("after {}: rows() = {}, model has {}", op, m.rows(), model.len()));
    }
    if m.columns() != c {
        return Err(format!("after {}: columns() = {}, expected {}", op, m.columns(), c));
    }
    let stride = m.stride();
    if stride < c {
        return Err(format!("stride {} < columns {}", stride, c));
    }
    if (stride * std::mem::size_of::<T>()) % 32 != 0 && std::mem::size_of::<T>().is_power_of_two() {
        return Err(format!("stride {} x {} bytes is not a multiple of 32 bytes", stride, std::mem::size_of::<T>()));
    }
    for (i, row) in model.iter().enumerate() {
        let got = &m[i];
        if got.len() != c {
            return Err(format!("after {}: row {} has {} cells", op, i, got.len()));
        }
        if (got.as_ptr() as usize) % 32 != 0 {
            return Err(format!("after {}: row {} starts at {:p}, not 32-byte aligned", op, i, got.as_ptr()));
        }
        if i > 0 {
            let prev = m[i - 1].as_ptr() as usize;
            // (element sizes that do not divide the row size: stride() cannot express the pitch -
            // known finding, reported by odd_size_probe; the rows must still be evenly spaced)
            let pitch = if exact_pitch(m) { stride * std::mem::size_of::<T>() } else { (stride * std::mem::size_of::<T>() + 31) / 32 * 32 };
            if got.as_ptr() as usize != prev + pitch {
                return Err(format!("after {}: row {} is not one stride after row {}", op, i, i - 1));
            }
        }
        for j in 0..c {
            if got[j] != row[j] {
                return Err(format!("after {}: cell ({},{}) = {:?}, model has {:?}", op, i, j, got[j], row[j]));
            }
            if m[MatrixCoordinates::new(i, j)] != row[j] {
                return Err(format!("after {}: coordinates ({},{}) = {:?}, model has {:?}", op, i, j, m[MatrixCoordinates::new(i, j)], row[j]));
            }
        }
    }
    // forward and backward iteration
    let it = m.iter();
    if it.len() != model.len() {
        return Err(format!("after {}: iter().len() = {}, rows = {}", op, it.len(), model.len()));
    }
    let mut n = 0;
    for (i, row) in m.iter().enumerate() {
        if i >= model.len() || row != &model[i][..] {
            return Err(format!("after {}: forward iteration, item {} differs from row {}", op, i, i));
        }
        n += 1;
    }
    if n != model.len() {
        return Err(format!("after {}: forward iteration visited {} rows of {}", op, n, model.len()));
    }
    let mut n = 0;
    for (k, row) in m.iter().rev().enumerate() {
        let i = model.len().wrapping_sub(1 + k);
        if i >= model.len() || row != &model[i][..] {
            return Err(format!("after {}: reverse iteration, item {} differs from row {}", op, k, i));
        }
        n += 1;
    }
    if n != model.len() {
        return Err(format!("after {}: reverse iteration visited {} rows of {}", op, n, model.len()));
    }
    // positional access from both ends and mixed consumption (nth / nth_back / skip / take.rev / len)
    let rows = model.len();
    for k in [0usize, 1, 2, rows / 2, rows.saturating_sub(1), rows, rows + 1] {
        let a = m.iter().nth(k);
        let e = if k < rows { Some(&model[k][..]) } else { None };
        if a != e {
            return Err(format!("after {}: iter().nth({}) is not row {}", op, k, k));
        }
        let b = m.iter().nth_back(k);
        let e = if k < rows { Some(&model[rows - 1 - k][..]) } else { None };
        if b != e {
            return Err(format!("after {}: iter().nth_back({}) is not row {} from the end", op, k, k));
        }
        let c: Vec<&[T]> = m.iter().rev().skip(k).collect();
        if c.len() != rows.saturating_sub(k) || c.iter().enumerate().any(|(i, r)| *r != &model[rows - 1 - k - i][..]) {
            return Err(format!("after {}: iter().rev().skip({}) does not yield the remaining rows in reverse order", op, k));
        }
        let d: Vec<&[T]> = m.iter().take(k).rev().collect();
        let kk = k.min(rows);
        if d.len() != kk || d.iter().enumerate().any(|(i, r)| *r != &model[kk - 1 - i][..]) {
            return Err(format!("after {}: iter().take({}).rev() does not yield the first rows in reverse order", op, k));
        }
    }
    {
        // reversed INTERNAL iteration (fold / for_each / last go through rfold): last row first
        let mut seen: Vec<usize> = Vec::new();
        let mut k = rows;
        let ok = m.iter().rev().fold(true, |acc, row| {
            k = k.wrapping_sub(1);
            seen.push(k);
            acc && k < rows && row == &model[k][..]
        });
        if !ok || seen.len() != rows {
            return Err(format!("after {}: iter().rev().fold() does not visit the rows last to first", op));
        }
        let mut idx = rows;
        let mut good = true;
        m.iter().rev().for_each(|row| {
            idx = idx.wrapping_sub(1);
            good &= idx < rows && row == &model[idx][..];
        });
        if !good || idx != 0 && rows > 0 {
            return Err(format!("after {}: iter().rev().for_each() does not visit the rows last to first", op));
        }
        if m.iter().rev().last() != model.first().map(|r| &r[..]) || m.iter().last() != model.last().map(|r| &r[..]) {
            return Err(format!("after {}: last() of the forward / reversed iterator is not the last / first row", op));
        }
        let mut pairs_ok = true;
        m.iter().rev().enumerate().for_each(|(i, row)| pairs_ok &= i < rows && row == &model[rows - 1 - i][..]);
        if !pairs_ok {
            return Err(format!("after {}: iter().rev().enumerate().for_each() pairs rows with the wrong positions", op));
        }
        if rows >= 3 {
            // partially consumed from both ends, then folded backwards
            let mut it = m.iter();
            let _ = it.next();
            let _ = it.next_back();
            let mut k2 = rows - 1;
            let ok2 = it.rev().fold(true, |acc, row| {
                k2 -= 1;
                acc && row == &model[k2][..]
            });
            if !ok2 || k2 != 1 {
                return Err(format!("after {}: a partially consumed iterator folded backwards visits the wrong rows", op));
            }
        }
    }
    for over in [rows, rows + 1, rows + 7] {
        // an nth() beyond the remaining rows leaves nothing behind
        let mut it = m.iter();
        if it.nth(over).is_some() || it.len() != 0 || it.next().is_some() || it.next_back().is_some() {
            return Err(format!("after {}: iter().nth({}) on {} rows does not exhaust the iterator", op, over, rows));
        }
        let mut it = m.iter();
        if it.nth_back(over).is_some() || it.len() != 0 || it.next().is_some() || it.next_back().is_some() {
            return Err(format!("after {}: iter().nth_back({}) on {} rows does not exhaust the iterator", op, over, rows));
        }
    }
    if rows >= 3 {
        // a partial nth() leaves exactly the rows behind it
        let mut it = m.iter();
        let _ = it.nth(1);
        if it.len() != rows - 2 || it.next() != Some(&model[2][..]) {
            return Err(format!("after {}: iter().nth(1) does not leave rows 2.. behind", op));
        }
        let _ = it.nth(rows);
        if it.len() != 0 || it.next().is_some() {
            return Err(format!("after {}: a second, overshooting nth() does not exhaust the iterator", op));
        }
    }
    {
        // alternate next() / next_back(): both ends meet exactly once
        let mut it = m.iter();
        let (mut lo, mut hi) = (0usize, rows);
        let mut turn = false;
        loop {
            if it.len() != hi - lo {
                return Err(format!("after {}: iterator reports len {} with {} rows left", op, it.len(), hi - lo));
            }
            let x = if turn { it.next_back() } else { it.next() };
            match x {
                None => {
                    if lo != hi {
                        return Err(format!("after {}: mixed iteration ended with rows {}..{} unvisited", op, lo, hi));
                    }
                    break;
                }
                Some(r) => {
                    if lo >= hi {
                        return Err(format!("after {}: mixed iteration yields more than {} rows", op, rows));
                    }
                    let want = if turn { hi - 1 } else { lo };
                    if r != &model[want][..] {
                        return Err(format!("after {}: mixed iteration yielded a row other than row {}", op, want));
                    }
                    if turn {
                        hi -= 1
                    } else {
                        lo += 1
                    }
                }
            }
            turn = !turn;
        }
    }
    let mut n = 0;
    for row in m {
        if n >= model.len() || row != &model[n][..] {
            return Err(format!("after {}: IntoIterator item {} differs", op, n));
        }
        n += 1;
    }
    if n != model.len() {
        return Err(format!("after {}: IntoIterator visited {} rows of {}", op, n, model.len()));
    }
    Ok(())
}

fn rebuild<T: Elem, C: ArrayLength + PartialEq>(model: &[Vec<T>]) -> DenseMatrix<T, C> {
    let mut m = DenseMatrix::<T, C>::new(model.len());
    for (i, r) in model.iter().enumerate() {
        for (j, x) in r.iter().enumerate() {
            m[i][j] = *x;
        }
    }
    m
}

pub fn history<T: Elem, C: ArrayLength + PartialEq>(case: u64, rng: &mut Rng, rep: &mut Report, n_ops: usize) {
    let c = C::USIZE;
    let tname = T::name();
    rep.eval();
    rep.cover(&format!("type.{}", tname));
    rep.cover(&format!("cols.{}", c));
    if !exact_pitch(&DenseMatrix::<T, C>::new(0)) && case % 64 < 8 && REPORT_ODD_SIZE.load(std::sync::atomic::Ordering::Relaxed) {
        odd_size_probe::<T, C>(case, rep, tname);
    }
    let mut ops: Vec<String> = Vec::new();
    let mut digest = Digest::new();
    digest.bytes(tname.as_bytes()).u(c as u64);
    let mut counter: u64 = rng.next_u64() % 1000;
    let mut next_val = |rng: &mut Rng| {
        counter += 1 + rng.below(7) as u64;
        T::from_u(counter)
    };

    // construction
    let mut model: Vec<Vec<T>>;
    let mut m: DenseMatrix<T, C>;
    let r0 = rng.below(12);
    match rng.below(3) {
        0 => {
            m = DenseMatrix::new(r0);
            model = vec![vec![T::default(); c]; r0];
            ops.push(format!("new({})", r0));
            rep.cover("op.new");
        }
        1 => {
            // the capacity is a hint: below, equal to or above the row count
            let cap = match rng.below(4) {
                0 => rng.below(r0 + 1),
                1 => r0,
                _ => r0 + rng.below(40),
            };
            if cap < r0 {
                rep.cover("op.with_capacity.below_rows");
            }
            let made = guard(|| DenseMatrix::<T, C>::with_capacity(r0, cap));
            m = match made {
                Ok(x) => x,
                Err(p) => {
                    rep.violate(&format!("c19.panic:{}", panic_site(&p)), case, format!("with_capacity({}, {}) panicked: {}", r0, cap, p), J::obj().set("type", J::s(tname)).set("columns", J::u(c)));
                    return;
                }
            };
            if m.capacity() < cap.max(r0) {
                rep.violate("c19.state", case, format!("with_capacity({}, {}): capacity() = {}", r0, cap, m.capacity()), J::obj().set("type", J::s(tname)).set("columns", J::u(c)));
                return;
            }
            model = vec![vec![T::default(); c]; r0];
            ops.push(format!("with_capacity({},{})", r0, cap));
            rep.cover("op.with_capacity");
        }
        _ => {
            model = (0..r0).map(|_| (0..c).map(|_| next_val(rng)).collect()).collect();
            m = DenseMatrix::from_rows(model.iter().map(|r| r.as_slice()).collect::<Vec<_>>());
            ops.push(format!("from_rows({} rows)", r0));
            rep.cover("op.from_rows");
            // ... and from the rows of another matrix, through the crate's own iterators
            match rng.below(4) {
                0 => {
                    let m2: DenseMatrix<T, C> = DenseMatrix::from_rows(&m);
                    m = m2;
                    ops.push("from_rows(&matrix)".to_string());
                    rep.cover("op.from_rows.matrix_iterator");
                }
                1 => {
                    let m2: DenseMatrix<T, C> = DenseMatrix::from_rows(m.iter().rev());
                    m = m2;
                    model.reverse();
                    ops.push("from_rows(matrix.iter().rev())".to_string());
                    rep.cover("op.from_rows.matrix_iterator");
                }
                2 => {
                    let m2: DenseMatrix<T, C> = DenseMatrix::from_rows(m.iter_mut());
                    m = m2;
                    ops.push("from_rows(matrix.iter_mut())".to_string());
                    rep.cover("op.from_rows.matrix_iterator");
                }
                _ => {}
            }
        }
    }
    if m.stride() != c {
        rep.cover("class.padded_stride");
    }
    let mut had_resize = false;
    let mut had_write = false;
    let fail = |rep: &mut Report, ops: &Vec<String>, msg: String, kind: &str| {
        rep.violate(
            kind,
            case,
            msg,
            J::obj()
                .set("type", J::s(tname))
                .set("columns", J::u(c))
                .set("history", J::Arr(ops.iter().map(|o| J::s(o.clone())).collect())),
        );
    };
    if let Err(e) = check_state(&m, &model, &ops[0]) {
        fail(rep, &ops, e, "c19.state");
        return;
    }

    for _ in 0..n_ops {
        let choice = rng.below(15);
        let rows = model.len();
        let res: Result<Result<(), String>, String> = guard(|| -> Result<(), String> {
            match choice {
                0 | 1 => {
                    let n = rows + rng.range(1, 20);
                    m.resize(n);
                    model.resize(n, vec![T::default(); c]);
                    ops.push(format!("resize({}) up", n));
                    rep.cover("op.resize_up");
                    had_resize = true;
                }
                2 => {
                    if rows > 0 {
                        let n = rng.below(rows);
                        m.resize(n);
                        model.truncate(n);
                        ops.push(format!("resize({}) down", n));
                        rep.cover("op.resize_down");
                        had_resize = true;
                    }
                }
                3 => {
                    if rng.chance(0.3) {
                        m.resize(0);
                        model.clear();
                        ops.push("resize(0)".to_string());
                        rep.cover("op.resize_zero");
                        had_resize = true;
                    } else {
                        let n = rng.below(64);
                        m.reserve(n);
                        ops.push(format!("reserve({})", n));
                        rep.cover("op.reserve");
                        if m.capacity() < rows + n {
                            return Err(format!("capacity {} after reserve({}) with {} rows", m.capacity(), n, rows));
                        }
                    }
                }
                4 => {
                    let v = if rng.chance(0.5) {
                        rep.cover("op.fill.byte_uniform_value");
                        T::byte_uniform(rng.below(4))
                    } else {
                        next_val(rng)
                    };
                    do_fill(&mut m, v);
                    for r in model.iter_mut() {
                        for x in r.iter_mut() {
                            *x = v;
                        }
                    }
                    ops.push(format!("fill({:?})", v));
                    rep.cover("op.fill");
                    had_write = rows > 0;
                }
                5 | 6 => {
                    if rows > 0 {
                        let r = rng.below(rows);
                        let vals: Vec<T> = (0..c).map(|_| next_val(rng)).collect();
                        m[r].copy_from_slice(&vals);
                        model[r] = vals;
                        ops.push(format!("row_write({})", r));
                        rep.cover("op.row_write");
                        had_write = true;
                    }
                }
                7 | 8 => {
                    if rows > 0 {
                        let r = rng.below(rows);
                        let j = rng.below(c);
                        let v = next_val(rng);
                        m[MatrixCoordinates::new(r, j)] = v;
                        model[r][j] = v;
                        ops.push(format!("cell_write({},{})", r, j));
                        rep.cover("op.cell_write");
                        had_write = true;
                    }
                }
                9 => {
                    // clone: equal, independent
                    let mut cl = m.clone();
                    ops.push("clone".to_string());
                    rep.cover("op.clone");
                    check_state(&cl, &model, "clone (the clone)")?;
                    if !(cl == m) {
                        return Err("clone != original".to_string());
                    }
                    if rows > 0 {
                        let r = rng.below(rows);
                        let j = rng.below(c);
                        let v = next_val(rng);
                        cl[r][j] = v;
                        if m[r][j] != model[r][j] {
                            return Err(format!("writing cell ({},{}) of the clone changed the original", r, j));
                        }
                        if v != model[r][j] && cl == m {
                            return Err("clone with one modified cell compares equal to the original".to_string());
                        }
                    }
                    {
                        // a second clone mutated through each writer in turn: the original must not
                        // move (a copy-on-write representation has to un-share in every writer)
                        let mut cl2 = m.clone();
                        let v = next_val(rng);
                        match rng.below(5) {
                            0 => do_fill(&mut cl2, v),
                            1 => {
                                for row in cl2.iter_mut() {
                                    for x in row.iter_mut() {
                                        *x = v;
                                    }
                                }
                            }
                            2 => cl2.resize(rows + 3),
                            3 => {
                                if rows > 0 {
                                    cl2[rows - 1].copy_from_slice(&vec![v; c]);
                                }
                            }
                            _ => {
                                do_fill(&mut cl2, v);
                                cl2.resize(0);
                            }
                        }
                        check_state(&m, &model, "original after its clone was written to")?;
                        // ... and a snapshot taken before the original is filled keeps the old cells
                        let snapshot = m.clone();
                        let old_model = model.clone();
                        do_fill(&mut m, v);
                        for r in model.iter_mut() {
                            for x in r.iter_mut() {
                                *x = v;
                            }
                        }
                        check_state(&snapshot, &old_model, "clone after the original was filled")?;
                        check_state(&m, &model, "original after fill")?;
                        drop(cl2);
                        // the earlier clone `cl` compares with the pre-fill cells below: refresh it
                        cl = m.clone();
                        if rows > 0 {
                            let (r, j) = (rng.below(rows), rng.below(c));
                            cl[r][j] = next_val(rng);
                        }
                        ops.push(format!("clone, write to the clone, fill({:?}) the original", v));
                    }
                    if rng.chance(0.5) {
                        // continue the history on the clone (the original is dropped)
                        let mut model2 = model.clone();
                        if rows > 0 {
                            // cl has one modified cell: find it by comparing with m
                            for r in 0..rows {
                                for j in 0..c {
                                    model2[r][j] = cl[r][j];
                                }
                            }
                        }
                        m = cl;
                        model = model2;
                        ops.push("continue on clone".to_string());
                    }
                }
                10 => {
                    // equality depends only on the logical cells: the rebuilt matrix never had its
                    // padding written by fill(), the current one may have
                    let other = rebuild::<T, C>(&model);
                    ops.push("== rebuilt".to_string());
                    rep.cover("op.eq");
                    if !(m == other) || !(other == m) {
                        return Err("matrix with the same logical cells compares unequal".to_string());
                    }
                    if rows > 0 {
                        let mut o2 = rebuild::<T, C>(&model);
                        let r = rng.below(rows);
                        let j = rng.below(c);
                        o2[r][j] = next_val(rng);
                        if o2[r][j] != model[r][j] && m == o2 {
                            return Err(format!("matrix differing in cell ({},{}) compares equal", r, j));
                        }
                    }
                    let mut o3 = rebuild::<T, C>(&model);
                    o3.resize(rows + 1);
                    if m == o3 {
                        return Err("matrix with one more (default) row compares equal".to_string());
                    }
                }
                11 => {
                    // iter_mut writes
                    let mut k = 0usize;
                    let vals: Vec<T> = (0..rows).map(|_| next_val(rng)).collect();
                    let col = rng.below(c);
                    let len = m.iter_mut().len();
                    if len != rows {
                        return Err(format!("iter_mut().len() = {} with {} rows", len, rows));
                    }
                    for row in m.iter_mut() {
                        if k >= rows {
                            return Err("iter_mut yields more rows than rows()".to_string());
                        }
                        row[col] = vals[k];
                        model[k][col] = vals[k];
                        k += 1;
                    }
                    if k != rows {
                        return Err(format!("iter_mut visited {} rows of {}", k, rows));
                    }
                    ops.push(format!("iter_mut write column {}", col));
                    rep.cover("op.iter_mut");
                    had_write |= rows > 0;
                }
                12 => {
                    // reverse iter_mut / &mut IntoIterator
                    let mut k = rows;
                    let col = rng.below(c);
                    let v = next_val(rng);
                    for row in (&mut m).into_iter().rev() {
                        if k == 0 {
                            return Err("reverse mutable iteration yields more rows than rows()".to_string());
                        }
                        k -= 1;
                        row[col] = v;
                        model[k][col] = v;
                    }
                    if k != 0 {
                        return Err(format!("reverse mutable iteration stopped with {} rows left", k));
                    }
                    ops.push(format!("(&mut m).into_iter().rev() write column {}", col));
                    rep.cover("op.into_iter");
                }
                13 => {
                    // clone_from into a matrix of another size: afterwards it is the source in every respect
                    let other_rows = match rng.below(3) {
                        0 => 0,
                        1 => rows + rng.range(1, 9),
                        _ => rng.below(rows + 1),
                    };
                    let mut dst = DenseMatrix::<T, C>::new(other_rows);
                    if other_rows > 0 {
                        let v = next_val(rng);
                        do_fill(&mut dst, v);
                    }
                    dst.clone_from(&m);
                    ops.push(format!("clone_from into a {}-row matrix, continue on it", other_rows));
                    rep.cover("op.clone_from");
                    if !(dst == m) {
                        return Err(format!("after clone_from a {}-row destination does not compare equal to its {}-row source", other_rows, rows));
                    }
                    m = dst;
                }
                _ => {
                    ops.push("iterate".to_string());
                    rep.cover("op.iter");
                    rep.cover("op.iter_rev");
                }
            }
            Ok(())
        });
        let last = ops.last().cloned().unwrap_or_default();
        digest.bytes(last.as_bytes());
        match res {
            Err(p) => {
                fail(rep, &ops, format!("panic during {}: {}", last, p), &format!("c19.panic:{}", panic_site(&p)));
                return;
            }
            Ok(Err(e)) => {
                fail(rep, &ops, e, "c19.op");
                return;
            }
            Ok(Ok(())) => {}
        }
        match guard(|| check_state(&m, &model, &last)) {
            Err(p) => {
                fail(rep, &ops, format!("panic while reading back after {}: {}", last, p), &format!("c19.panic:{}", panic_site(&p)));
                return;
            }
            Ok(Err(e)) => {
                fail(rep, &ops, e, "c19.state");
                return;
            }
            Ok(Ok(())) => {}
        }
    }
    // equality depends on the logical cells only - never on which object is compared: a matrix
    // compares equal to itself exactly when its cells do (a NaN cell is not equal to itself)
    {
        let res = guard(|| {
            #[allow(clippy::eq_op)]
            let self_eq = m == m;
            let mut out: Vec<String> = Vec::new();
            if self_eq != (model == model) {
                out.push(format!("m == m is {} but the cells compare {}", self_eq, model == model));
            }
            if let (Some(odd), true) = (T::unequal_to_itself(), !model.is_empty()) {
                let mut n = m.clone();
                n[model.len() / 2][c - 1] = odd;
                let n2 = n.clone();
                #[allow(clippy::eq_op)]
                let a = n == n;
                let b = n == n2;
                let d = n == m;
                if a || b || d {
                    out.push(format!("with a cell that is not equal to itself: n == n is {}, n == n.clone() is {}, n == original is {} (all three must be false)", a, b, d));
                }
            }
            if let (Some((p, q)), true) = (T::equal_with_other_bytes(), !model.is_empty()) {
                let mut n = m.clone();
                let mut n2 = m.clone();
                n[model.len() / 2][c - 1] = p;
                n2[model.len() / 2][c - 1] = q;
                let mut filled = m.clone();
                filled.fill(q);
                let mut filled2 = m.clone();
                filled2.fill(p);
                if n != n2 || !(n2 == n) || filled != filled2 {
                    out.push(format!("two matrices that differ only by {:?} / {:?} cells (equal values, other bytes) compare unequal", p, q));
                }
            }
            out
        });
        rep.cover("check.self_equality");
        match res {
            Err(p) => {
                fail(rep, &ops, format!("panic in ==: {}", p), &format!("c19.panic:{}", panic_site(&p)));
                return;
            }
            Ok(v) => {
                if let Some(e) = v.into_iter().next() {
                    fail(rep, &ops, e, "c19.state");
                    return;
                }
            }
        }
    }
    if had_resize && had_write {
        rep.nontrivial(digest.get());
    }
    rep.sample(|| {
        J::obj()
            .set("case", J::UInt(case))
            .set("type", J::s(tname))
            .set("columns", J::u(c))
            .set("stride", J::u(m.stride()))
            .set("history", J::Arr(ops.iter().map(|o| J::s(o.clone())).collect()))
    });
}

pub fn one_case(case: u64, rng: &mut Rng, rep: &mut Report, n_ops: usize) {
    macro_rules! by_cols {
        ($t:ty) => {
            match (case / 4) % 7 {
                0 => history::<$t, U1>(case, rng, rep, n_ops),
                1 => history::<$t, U5>(case, rng, rep, n_ops),
                2 => history::<$t, U7>(case, rng, rep, n_ops),
                3 => history::<$t, U16>(case, rng, rep, n_ops),
                4 => history::<$t, U21>(case, rng, rep, n_ops),
                5 => history::<$t, U32>(case, rng, rep, n_ops),
                _ => history::<$t, U43>(case, rng, rep, n_ops),
            }
        };
    }
    match case % 6 {
        5 => by_cols!(Rgb),
        0 => by_cols!(u8),
        1 => by_cols!(u32),
        2 => by_cols!(f32),
        3 => by_cols!(Tagged),
        _ => by_cols!(i64),
    }
}

pub fn run(cfg: &Config) -> Report {
    let n = cfg.n(40_000, 1_500_000) as u64;
    run_cases(cfg, n, |case, rng, rep| one_case(case, rng, rep, 30))
}
