//! C03 - scanner best hit is a maximum-scoring position that meets the threshold.
use std::collections::HashSet;

use lightmotif::scan::Scanner;

use crate::c02::*;
use crate::common::*;
use crate::json::J;
use crate::model::*;
use crate::rng::Rng;

pub const RULE: &str = "case = (DNA matrix, sequence, threshold, block size, arm, k): a fresh scanner, k calls to next() (k in {0,1,2,5,all}; consumed hits recorded), then max(). Inputs as C02 plus near-tie workloads (few-valued matrices on long sequences, wide matrices with fractional entries where 8-bit rounding reorders near-equal positions). Oracle over the f64 model: remaining = hits(t) minus consumed; None is required iff nothing remains (don't-care when the only remaining positions are within the summation bound of t); otherwise the returned position must be valid, unconsumed, carry its exact score, meet the threshold and score no less than every remaining position (any maximal position accepted). Checking every (block size, k) against the same model implies independence of both. In addition every case with L >= M drives two reconfiguration histories finished by max(): next() calls interleaved with threshold() and block_size(); with the verif-hooks row log the candidates of max() are exactly the buffered hits (found by a scored block, not handed out, still meeting the current threshold) plus the positions of rows not scored yet that meet the current threshold. Non-trivial = a hit remains; distinct = distinct (matrix, sequence, t, block, arm, k).";

pub const REQUIRED: &[&str] = &[
    "arm.dispatch[generic]", "arm.dispatch[sse2]", "arm.dispatch[avx2]", "arm.dispatch[auto]", "class.none_expected",
    "class.some_expected", "class.k>0", "class.k=all", "class.near_ties", "class.blocks>1", "class.L<M",
    "class.first_candidate_below_threshold", "class.threshold_below_jth_best", "dispatch_forced.generic", "dispatch_forced.sse2", "dispatch_forced.avx2",
    "class.rows>65536", "class.threshold_equals_best_score_on_grid_aligned_matrix", "class.history", "class.history.threshold_lowered", "class.history.threshold_raised",
    "class.history.block_size_changed_after_blocks_scored", "class.history.hits_yielded",
];

/// Match / mismatch matrices with the same spread in every column: every discretised cell is exact,
/// the 8-bit score has no round-up margin. The threshold is the f32 score the library itself gives
/// the best position: that position meets the threshold in the library's own arithmetic, so max()
/// must find it (saturating arms only) and next() must yield every position with that score.
fn tie_case(case: u64, rng: &mut Rng, rep: &mut Report) {
    use lightmotif::abc::Dna;
    use lightmotif::num::U32;
    use lightmotif::seq::StripedSequence;
    let (a, b) = *rng.pick(&[(0.5f32, -0.4f32), (0.7, -1.1), (0.3, -0.6), (1.1, -0.9), (0.9, -0.7), (2.0, -1.0)]);
    let m = if rng.chance(0.6) { *rng.pick(&[3usize, 5, 15, 17]) } else { rng.range(2, 24) };
    let l = rng.range(m + 30, 1500);
    let cons: Vec<usize> = (0..m).map(|_| rng.below(4)).collect();
    let wild = if rng.chance(0.5) { f32::NEG_INFINITY } else { b };
    let rows: Vec<Vec<f32>> = cons.iter().map(|&c| (0..5).map(|j| if j == 4 { wild } else if j == c { a } else { b }).collect()).collect();
    let mut seq = gen_seq(rng, 5, l, SeqKind::Uniform);
    // several sites that differ from the consensus in the same number of places (equal scores)
    let n_mis = rng.below(3.min(m));
    for _ in 0..rng.range(1, 4) {
        let p = rng.below(l - m + 1);
        for j in 0..m {
            seq[p + j] = cons[j] as u8;
        }
        for q in 0..n_mis {
            let j = (q * 7 + p) % m;
            seq[p + j] = ((cons[j] + 1 + q) % 4) as u8;
        }
    }
    let pssm = scoring::<Dna>(&rows);
    let mut striped: StripedSequence<Dna, U32> = stripe_generic(&encoded::<Dna>(&seq));
    striped.configure(&pssm);
    rep.eval();
    rep.cover("class.threshold_equals_best_score_on_grid_aligned_matrix");
    for &arm in [Arm::DispAvx2, Arm::DispAuto].iter() {
        let res = guard(|| {
            let f32_scores: Vec<f32> = (0..=l - m).map(|i| pssm.score_position(&striped, i)).collect();
            let best = f32_scores.iter().cloned().fold(f32::NEG_INFINITY, f32::max);
            let block = *rng.pick(&[1usize, 7, 32, 256, usize::MAX]);
            force(arm);
            let mut sc = Scanner::new(&pssm, &striped);
            unforce();
            sc.threshold(best);
            sc.block_size(block);
            let top = sc.max().map(|h| (h.position(), h.score()));
            force(arm);
            let mut sc2 = Scanner::new(&pssm, &striped);
            unforce();
            sc2.threshold(best);
            sc2.block_size(block);
            let hits: Vec<usize> = sc2.map(|h| h.position()).collect();
            (f32_scores, best, block, top, hits)
        });
        unforce();
        let wit = |extra: J| {
            J::obj()
                .set("arm", J::s(arm.name()))
                .set("match_score", J::f(a as f64))
                .set("mismatch_score", J::f(b as f64))
                .set("M", J::u(m))
                .set("L", J::u(l))
                .set("consensus", J::s(fmt_seq_short::<Dna>(&cons.iter().map(|&c| c as u8).collect::<Vec<u8>>())))
                .set("sequence", J::s(fmt_seq_short::<Dna>(&seq)))
                .set("detail", extra)
        };
        match res {
            Err(p) => {
                rep.violate(&format!("c03.panic:{}", panic_site(&p)), case, format!("panic: {}", p), wit(J::Null));
                return;
            }
            Ok((scores, best, block, top, hits)) => {
                if !best.is_finite() {
                    continue;
                }
                let want: Vec<usize> = (0..scores.len()).filter(|&i| scores[i] >= best).collect();
                match top {
                    None => {
                        rep.violate("c03.none_but_hit_exists", case, format!("threshold = {} = the score_position() of position {}, block size {}: max() returned None", best, want[0], block), wit(J::Null));
                        return;
                    }
                    Some((p, s)) => {
                        if p >= scores.len() || scores[p] != best || s != best {
                            rep.violate("c03.not_maximal", case, format!("threshold = best score {}: max() returned position {} with score {}", best, p, s), wit(J::Null));
                            return;
                        }
                    }
                }
                let got: HashSet<usize> = hits.iter().cloned().collect();
                if let Some(&missing) = want.iter().find(|i| !got.contains(i)) {
                    rep.violate("c03.hit_at_threshold_not_yielded", case, format!("threshold = {}: position {} has exactly that score_position() but next() never yielded it (block size {})", best, missing, block), wit(J::Null));
                    return;
                }
            }
        }
    }
}

fn max_case(case: u64, rng: &mut Rng, rep: &mut Report) {
    if case % 8 == 6 {
        tie_case(case, rng, rep);
        return;
    }
    max_case_inner(case, rng, rep);
}

fn max_case_inner(case: u64, rng: &mut Rng, rep: &mut Report) {
    // case 0 of every run: a sequence with more than 65536 striped rows scanned in blocks larger
    // than that (the 8-bit arg-maximum kernels count rows in 16 bits; "any block size >= 1")
    let giant = case == 0;
    let near = !giant && rng.chance(0.45);
    let m = if giant { rng.range(4, 8) } else if near { rng.range(8, 33) } else { *rng.pick(&SCAN_WIDTHS) };
    let b_hint = if giant { usize::MAX } else { *rng.pick(&[1usize, 2, 3, 5, 8, 16, 31, 32, 33, 64]) };
    let l = if giant {
        rep.cover("class.rows>65536");
        65536 * 32 + 32 * rng.range(1, 3) + rng.below(32)
    } else if near {
        rng.range(m.max(200), 5000)
    } else {
        pick_lengths(rng, m, b_hint)
    };
    let inp = make_scan_input(rng, l, m, near);
    let nvalid = inp.exact.len();
    for run_i in 0..4 {
        let arm = DISP_ARMS[((case as usize) + run_i) % 4];
        let b = if giant { [usize::MAX, 65537, 65536, 1_000_000][run_i] } else if run_i == 0 { b_hint } else { pick_block(rng, inp.r_rows, m) };
        let t = if near && rng.chance(0.45) && nvalid > 8 {
            // threshold just below the j-th best score: a handful of near-equal candidates, whose
            // rounded-up byte scores need not be in the order of their real scores
            let mut v: Vec<f64> = inp.exact.iter().map(|e| e.0).filter(|x| x.is_finite()).collect();
            v.sort_by(|a, b| b.partial_cmp(a).unwrap());
            if v.len() > 8 {
                rep.cover("class.threshold_below_jth_best");
                (v[rng.range(1, 6)] - 1e-3) as f32
            } else {
                0.0
            }
        } else if near && rng.chance(0.5) {
            // low threshold: the maximum has to be found among many candidates
            *rng.pick(&[f32::NEG_INFINITY, -1.0e30, 0.0])
        } else {
            pick_threshold(rng, &inp, rep)
        };
        let k_choice = if giant { *rng.pick(&[0usize, 1]) } else { *rng.pick(&[0usize, 0, 1, 2, 5, usize::MAX]) };
        rep.eval();
        rep.cover(&format!("arm.{}", arm.name()));
        if inp.l < inp.m {
            rep.cover("class.L<M");
        }
        if inp.r_rows > b {
            rep.cover("class.blocks>1");
        }
        let td = t as f64;
        let res = guard(|| {
            force(arm);
            let mut sc = Scanner::new(&inp.pssm, &inp.striped);
            unforce();
            sc.threshold(t);
            sc.block_size(b);
            let mut consumed: Vec<(usize, f32)> = Vec::new();
            let mut k = 0;
            while k < k_choice && consumed.len() <= inp.l + 2 {
                match sc.next() {
                    None => break,
                    Some(h) => consumed.push((h.position(), h.score())),
                }
                k += 1;
            }
            let best = sc.max().map(|h| (h.position(), h.score()));
            (consumed, best)
        });
        unforce();
        let wit = |extra: J| inp.witness(arm, t, b).set("next_calls_before_max", if k_choice == usize::MAX { J::s("all") } else { J::u(k_choice) }).set("detail", extra);
        let (consumed, best) = match res {
            Err(p) => {
                let wraps = generic_family(arm) && p.contains("attempt to add with overflow") && panic_site(&p).ends_with("src/pli/mod.rs");
                let kind = if wraps { "c03.generic_u8_wraps".to_string() } else { format!("c03.panic:{}", panic_site(&p)) };
                rep.violate(&kind, case, format!("panic in next()/max(): {}", p), wit(J::Null));
                continue;
            }
            Ok(x) => x,
        };
        if !consumed.is_empty() {
            rep.cover("class.k>0");
        }
        if k_choice == usize::MAX {
            rep.cover("class.k=all");
        }
        let consumed_set: HashSet<usize> = consumed.iter().map(|c| c.0).collect();
        let definite: Vec<usize> = (0..nvalid).filter(|i| !consumed_set.contains(i) && inp.exact[*i].0 >= td + inp.tol(*i)).collect();
        let possible_any = (0..nvalid).any(|i| !consumed_set.contains(&i) && inp.exact[i].0 >= td - inp.tol(i));
        // near ties: >= 2 remaining positions within 3 discretisation steps of the maximum
        let best_def = definite.iter().map(|&i| inp.exact[i].0).fold(f64::NEG_INFINITY, f64::max);
        if definite.len() >= 2 && best_def.is_finite() {
            let step = ((inp.pssm.max_score() - inp.pssm.min_score()) as f64 / 255.0).abs();
            if definite.iter().filter(|&&i| inp.exact[i].0 >= best_def - 3.0 * step).count() >= 2 {
                rep.cover("class.near_ties");
            }
        }
        // the first position (in block scan order) whose byte score passes but whose real score fails
        if nvalid > 0 && inp.exact.iter().any(|e| e.0 < td) {
            rep.cover("class.first_candidate_below_threshold");
        }
        if definite.is_empty() {
            rep.cover("class.none_expected");
        } else {
            rep.cover("class.some_expected");
            let mut d = Digest::new();
            d.u(inp.digest(arm, t, b)).u(k_choice as u64);
            rep.nontrivial(d.get());
        }
        match best {
            None => {
                if !definite.is_empty() {
                    let bi = *definite.iter().max_by(|a, b| inp.exact[**a].0.partial_cmp(&inp.exact[**b].0).unwrap()).unwrap();
                    let wraps = generic_family(arm) && inp.presat[bi] > 255;
                    rep.violate(
                        if wraps { "c03.generic_u8_wraps" } else { "c03.none_but_hit_exists" },
                        case,
                        format!("max() returned None but position {} scores {} >= threshold {} and was not consumed", bi, inp.exact[bi].0, t),
                        wit(J::obj().set("consumed", J::Arr(consumed.iter().map(|c| J::u(c.0)).collect()))),
                    );
                }
            }
            Some((p, s)) => {
                if p >= nvalid {
                    rep.violate("c03.out_of_range", case, format!("max() returned position {} (score {}), last valid position is {:?}", p, s, nvalid.checked_sub(1)), wit(J::Null));
                    continue;
                }
                if consumed_set.contains(&p) {
                    rep.violate("c03.consumed_returned", case, format!("max() returned position {} which next() had already yielded", p), wit(J::Null));
                    continue;
                }
                let (ex, _) = inp.exact[p];
                let tl = inp.tol(p);
                if !possible_any || ex < td - tl {
                    rep.violate(
                        "c03.below_threshold",
                        case,
                        format!("max() returned position {} with score {} (exact {}), below the threshold {}", p, s, ex, t),
                        wit(J::Null),
                    );
                    continue;
                }
                let score_ok = if ex == f64::NEG_INFINITY { s == f32::NEG_INFINITY } else { ((s as f64) - ex).abs() <= tl.max(1e-30) };
                if !score_ok {
                    rep.violate("c03.wrong_score", case, format!("max() returned position {} with score {}, exact score {}", p, s, ex), wit(J::Null));
                    continue;
                }
                // maximality against every definitely qualifying remaining position
                let mut worst: Option<usize> = None;
                for &i in definite.iter() {
                    if inp.exact[i].0 - inp.tol(i) > ex + tl {
                        if worst.map_or(true, |w| inp.exact[i].0 > inp.exact[w].0) {
                            worst = Some(i);
                        }
                    }
                }
                if let Some(i) = worst {
                    let wraps = generic_family(arm) && inp.presat[i] > 255;
                    rep.violate(
                        if wraps { "c03.generic_u8_wraps" } else { "c03.not_maximal" },
                        case,
                        format!("max() returned position {} scoring {} but position {} scores {} (threshold {}, {} hits consumed)", p, ex, i, inp.exact[i].0, t, consumed.len()),
                        wit(J::obj().set("returned", J::u(p)).set("better", J::u(i))),
                    );
                    continue;
                }
            }
        }
        rep.sample(|| {
            wit(J::Null)
                .set("case", J::UInt(case))
                .set("consumed", J::u(consumed.len()))
                .set("returned", match best {
                    None => J::Null,
                    Some((p, s)) => J::Arr(vec![J::u(p), J::f(s as f64)]),
                })
        });
    }
    // reconfiguration histories finished by max(): setters called between next() calls
    if inp.l >= inp.m {
        for h in 0..2 {
            let arm = DISP_ARMS[((case as usize) + h) % 4];
            crate::scanhist::history_case(case, rng, rep, &inp, arm, crate::scanhist::Finish::Max, "c03", None);
        }
    }
}

pub fn run(cfg: &Config) -> Report {
    let n = cfg.n(8000, 300_000) as u64;
    run_cases(cfg, n, |case, rng, rep| max_case(case, rng, rep))
}
