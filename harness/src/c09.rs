//! C09 - count -> frequency -> weight -> log-odds conversions obey their definitions.
use generic_array::GenericArray;
use lightmotif::abc::{Alphabet, Background, Dna, Protein, Pseudocounts};
use lightmotif::dense::DenseMatrix;
use lightmotif::num::U32;
use lightmotif::pwm::{CountMatrix, FrequencyMatrix, ScoringMatrix, WeightMatrix};
use lightmotif::seq::{EncodedSequence, StripedSequence};

use crate::common::*;
use crate::json::J;
use crate::model::*;
use crate::rng::Rng;

pub const RULE: &str = "case = (alphabet, count data from random sequence sets or raw count matrices, scalar or per-symbol pseudocounts incl. 0, background: uniform / dyadic non-uniform (sums exactly to 1 in f32) / with zero entries / from counts / from sequences, logarithm base in {2, 10, e, 3.7}). An f64 reference of the definitions (relative tolerance 1e-5) judges counts, frequency rows (sum to one, (count+pseudo)/total), weights (0 where the background is 0), scores (-inf where the background is 0), agreement of the one-step, two-step and rescale routes (and of the TRANSFAC record type of lightmotif-io, whose to_counts / to_freq implement the same definition on a record read from text, rows with differing totals), [min_score, max_score] bracketing of wildcard-free windows incl. the extreme words, and rejection of invalid inputs (unequal lengths, frequency rows off by >= 0.05, backgrounds outside [0,1] / NaN / sum off by >= 0.01). Non-trivial = width >= 1 and a non-uniform background or non-zero pseudocount; distinct = distinct (alphabet, counts, pseudocounts, background, base).";

pub const REQUIRED: &[&str] = &[
    "alphabet.dna", "alphabet.protein", "source.from_sequences", "source.raw_counts", "pseudo.scalar", "pseudo.zero",
    "pseudo.per_symbol", "pseudo.filled_in_place", "bg.uniform", "bg.dyadic", "bg.zero_entries", "bg.tiny_positive_entry", "bg.from_counts", "bg.from_sequence",
    "base.2", "base.10", "base.e", "base.3.7", "route.one_step", "route.two_step", "route.rescale", "route.rescale_to_default", "route.from_impls", "route.default_background", "class.wildcard_frequency_under_default_background",
    "invalid.unequal_lengths", "invalid.unequal_lengths.empty_member", "invalid.unequal_lengths.leading_empty", "invalid.freq_row_sum", "invalid.freq_not_a_number", "route.transfac_record", "invalid.bg_out_of_range", "invalid.bg_negative_sum_one", "invalid.bg_sum", "invalid.bg_nan",
    "windows.bracketed", "class.neg_inf_score",
];

fn rel_close(a: f64, b: f64, rel: f64) -> bool {
    if a == b {
        return true;
    }
    if a.is_nan() || b.is_nan() {
        return false;
    }
    if a.is_infinite() || b.is_infinite() {
        return a == b;
    }
    (a - b).abs() <= rel * (1.0 + a.abs().max(b.abs()))
}

fn dyadic_bg(rng: &mut Rng, k: usize, zero_entries: bool) -> Vec<f32> {
    // multiples of 1/256 summing to exactly 1 (exact in f32 whatever the summation order)
    let n = k - 1;
    let mut parts = vec![1u32; n];
    if zero_entries {
        for _ in 0..rng.range(1, (n / 2).max(1)) {
            parts[rng.below(n)] = 0;
        }
        if parts.iter().all(|&p| p == 0) {
            parts[0] = 1;
        }
    }
    let mut left = 256 - parts.iter().sum::<u32>();
    while left > 0 {
        let j = rng.below(n);
        if parts[j] == 0 {
            continue;
        }
        let add = rng.range(1, left as usize) as u32;
        parts[j] += add;
        left -= add;
    }
    let mut v: Vec<f32> = parts.iter().map(|&p| p as f32 / 256.0).collect();
    v.push(0.0);
    v
}

fn garr<A: Alphabet>(v: &[f32]) -> GenericArray<f32, A::K> {
    v.iter().cloned().collect()
}

fn run_case<A: Alphabet>(case: u64, rng: &mut Rng, rep: &mut Report, alpha: &str) {
    let k = k_of::<A>();
    rep.eval();
    rep.cover(&format!("alphabet.{}", alpha));
    let w = rng.range(1, 30);
    let mut notes: Vec<String> = Vec::new();
    let fail = |rep: &mut Report, kind: &str, msg: String, notes: &Vec<String>, extra: J| {
        rep.violate(
            kind,
            case,
            msg,
            J::obj().set("alphabet", J::s(alpha)).set("width", J::u(w)).set("setup", J::Arr(notes.iter().map(|n| J::s(n.clone())).collect())).set("detail", extra),
        );
    };

    // ---- count data -------------------------------------------------------------
    let mut counts = vec![vec![0u32; k]; w];
    let cm: CountMatrix<A>;
    if rng.chance(0.5) {
        let n = rng.range(1, 50);
        let with_wild = rng.chance(0.3);
        let seqs: Vec<Vec<u8>> = (0..n)
            .map(|_| (0..w).map(|_| if with_wild && rng.chance(0.1) { (k - 1) as u8 } else { rng.below(k - 1) as u8 }).collect())
            .collect();
        for s in &seqs {
            for (i, &x) in s.iter().enumerate() {
                counts[i][x as usize] += 1;
            }
        }
        notes.push(format!("from_sequences({} sequences of length {})", n, w));
        rep.cover("source.from_sequences");
        let encs: Vec<EncodedSequence<A>> = seqs.iter().map(|s| encoded::<A>(s)).collect();
        match guard(|| CountMatrix::<A>::from_sequences(encs.iter())) {
            Ok(Ok(c)) => {
                if c.sequence_count() != n {
                    fail(rep, "c09.counts", format!("sequence_count() = {} for {} sequences", c.sequence_count(), n), &notes, J::Null);
                }
                cm = c
            }
            Ok(Err(_)) => {
                fail(rep, "c09.rejects_valid", "from_sequences rejected equal-length sequences".into(), &notes, J::Null);
                return;
            }
            Err(p) => {
                fail(rep, &format!("c09.panic:{}", panic_site(&p)), format!("panic in from_sequences: {}", p), &notes, J::Null);
                return;
            }
        }
        // unequal lengths must be rejected
        if n >= 2 {
            let mut bad = seqs.clone();
            // one odd sequence anywhere (first, last, middle): longer, shorter, or empty; or a
            // run of empty sequences in front of the set
            let mut j = match rng.below(4) {
                0 => 0,
                1 => n - 1,
                _ => rng.below(n),
            };
            match rng.below(5) {
                0 => bad[j].push(0),
                1 if w > 1 => {
                    bad[j].pop();
                }
                2 => {
                    bad[j].clear();
                    rep.cover("invalid.unequal_lengths.empty_member");
                }
                3 => {
                    let e = rng.range(1, 3).min(n - 1);
                    for s in bad.iter_mut().take(e) {
                        s.clear();
                    }
                    j = 0;
                    rep.cover("invalid.unequal_lengths.leading_empty");
                }
                _ => {
                    let extra = rng.range(1, 40);
                    bad[j].extend(std::iter::repeat(1u8).take(extra));
                }
            }
            if bad[j].len() == w {
                bad[j].push(0);
            }
            rep.cover("invalid.unequal_lengths");
            let encs: Vec<EncodedSequence<A>> = bad.iter().map(|s| encoded::<A>(s)).collect();
            // the FromIterator route must reject the set as well
            if let Ok(Ok(_)) = guard(|| encs.iter().cloned().collect::<Result<CountMatrix<A>, _>>()) {
                fail(rep, "c09.accepts_invalid", format!("collect::<Result<CountMatrix, _>>() accepted sequences of unequal lengths (sequence {} has length {}, the others {})", j, bad[j].len(), w), &notes, J::Null);
            }
            match guard(|| CountMatrix::<A>::from_sequences(encs.iter())) {
                Ok(Err(_)) => {}
                Ok(Ok(_)) => fail(rep, "c09.accepts_invalid", format!("from_sequences accepted sequences of unequal lengths (sequence {} has length {})", j, bad[j].len()), &notes, J::Null),
                Err(p) => fail(rep, &format!("c09.panic:{}", panic_site(&p)), format!("panic in from_sequences with unequal lengths: {}", p), &notes, J::Null),
            }
        }
    } else {
        let hi = *rng.pick(&[5u32, 50, 1000, 100_000]);
        for r in counts.iter_mut() {
            for j in 0..k - 1 {
                r[j] = rng.below(hi as usize) as u32;
            }
            if rng.chance(0.2) {
                r[k - 1] = rng.below(5) as u32;
            }
            if rng.chance(0.06) {
                // almost every observation is the wildcard: all log-odds of the row are negative
                r[k - 1] = hi.saturating_mul(20).max(40);
            }
            // never an all-zero row: its frequencies are undefined
            if r.iter().all(|&c| c == 0) {
                r[rng.below(k - 1)] = 1;
            }
        }
        if rng.chance(0.05) {
            // the largest legal counts: a position total of 2^32 or more
            let i = rng.below(w);
            counts[i][rng.below(k - 1)] = 3_000_000_000;
            counts[i][rng.below(k - 1)] = u32::MAX - rng.below(2) as u32;
            let j2 = rng.below(k - 1);
            counts[i][j2] = counts[i][j2].max(2_000_000_000);
            rep.cover("class.position_total_above_2^32");
            notes.push("one position holds counts near u32::MAX".to_string());
        }
        notes.push(format!("CountMatrix::new(raw counts below {})", hi));
        rep.cover("source.raw_counts");
        let mut dm = DenseMatrix::<u32, A::K>::new(w);
        for i in 0..w {
            for j in 0..k {
                dm[i][j] = counts[i][j];
            }
        }
        match guard(|| CountMatrix::<A>::new(dm)) {
            Ok(Ok(c)) => cm = c,
            Ok(Err(_)) => {
                fail(rep, "c09.rejects_valid", "CountMatrix::new rejected a count matrix".into(), &notes, J::Null);
                return;
            }
            Err(p) => {
                fail(rep, &format!("c09.panic:{}", panic_site(&p)), format!("panic in CountMatrix::new: {}", p), &notes, J::Null);
                return;
            }
        }
    }
    for i in 0..w {
        for j in 0..k {
            if cm.matrix()[i][j] != counts[i][j] {
                fail(rep, "c09.counts", format!("count[{}][{}] = {}, {} occurrences", i, j, cm.matrix()[i][j], counts[i][j]), &notes, J::Null);
                return;
            }
        }
    }

    // ---- pseudocounts -------------------------------------------------------------
    let pseudo: Vec<f32>;
    let freq: FrequencyMatrix<A>;
    match rng.below(3) {
        0 => {
            let p = *rng.pick(&[0.1f32, 0.25, 1.0, 0.5, 2.5]);
            pseudo = (0..k).map(|j| if j == k - 1 { 0.0 } else { p }).collect();
            notes.push(format!("to_freq(scalar pseudocount {})", p));
            rep.cover("pseudo.scalar");
            freq = cm.to_freq(p);
            let pc = Pseudocounts::<A>::from(p);
            for j in 0..k {
                if pc.counts()[j] != pseudo[j] {
                    fail(rep, "c09.pseudocounts", format!("Pseudocounts::from({})[{}] = {}", p, j, pc.counts()[j]), &notes, J::Null);
                }
            }
        }
        1 => {
            pseudo = vec![0.0; k];
            notes.push("to_freq(0.0)".into());
            rep.cover("pseudo.zero");
            freq = cm.to_freq(0.0);
        }
        _ => {
            pseudo = (0..k).map(|j| if j == k - 1 && rng.chance(0.7) { 0.0 } else { rng.f32_in(0.0, 3.0) }).collect();
            notes.push(format!("to_freq(per-symbol pseudocounts {:?})", pseudo));
            rep.cover("pseudo.per_symbol");
            freq = cm.to_freq(Pseudocounts::<A>::from(garr::<A>(&pseudo)));
        }
    }
    // frequency definition
    let mut f_ref = vec![vec![0f64; k]; w];
    for i in 0..w {
        let total: f64 = (0..k).map(|j| counts[i][j] as f64 + pseudo[j] as f64).sum();
        let mut sum = 0.0f64;
        for j in 0..k {
            f_ref[i][j] = (counts[i][j] as f64 + pseudo[j] as f64) / total;
            let got = freq.matrix()[i][j] as f64;
            sum += got;
            if !rel_close(got, f_ref[i][j], 1e-5) {
                fail(rep, "c09.frequency", format!("frequency[{}][{}] = {}, (count+pseudo)/total = {}", i, j, got, f_ref[i][j]), &notes, J::Null);
                return;
            }
        }
        if (sum - 1.0).abs() > 1e-4 {
            fail(rep, "c09.frequency", format!("frequency row {} sums to {}", i, sum), &notes, J::Null);
            return;
        }
    }

    // the same pseudocounts written in place into an object that was created all-zero
    // (Pseudocounts::default() / from(0.0), then as_mut()): what counts is what it holds now
    {
        let mut pc = if rng.chance(0.5) { Pseudocounts::<A>::default() } else { Pseudocounts::<A>::from(0.0f32) };
        {
            let slot: &mut [f32] = pc.as_mut();
            for (j, x) in slot.iter_mut().enumerate() {
                *x = pseudo[j];
            }
        }
        rep.cover("pseudo.filled_in_place");
        match guard(|| cm.to_freq(pc)) {
            Err(p) => {
                fail(rep, &format!("c09.panic:{}", panic_site(&p)), format!("panic in to_freq (pseudocounts filled in place): {}", p), &notes, J::Null);
                return;
            }
            Ok(f2) => {
                for i in 0..w {
                    for j in 0..k {
                        if !rel_close(f2.matrix()[i][j] as f64, f_ref[i][j], 1e-5) {
                            fail(rep, "c09.frequency", format!("to_freq with pseudocounts written through as_mut(): frequency[{}][{}] = {}, (count+pseudo)/total = {}", i, j, f2.matrix()[i][j], f_ref[i][j]), &notes, J::Null);
                            return;
                        }
                    }
                }
            }
        }
    }

    // ---- background ---------------------------------------------------------------
    let bgv: Vec<f32>;
    let bg: Background<A>;
    match rng.below(6) {
        0 => {
            bg = Background::<A>::uniform();
            bgv = (0..k).map(|j| if j == k - 1 { 0.0 } else { 1.0 / (k - 1) as f32 }).collect();
            notes.push("Background::uniform()".into());
            rep.cover("bg.uniform");
        }
        1 | 2 => {
            let zero = rng.chance(0.4);
            let mut v = dyadic_bg(rng, k, zero);
            if rng.chance(0.25) {
                // a positive frequency far below f32::EPSILON: still inside [0,1], and the f32 sum is
                // still exactly one (the tiny term is absorbed)
                let j = rng.below(k);
                if v[j] == 0.0 {
                    v[j] = *rng.pick(&[1.0e-8f32, 3.0e-9, 1.0e-12, 1.0e-30]);
                    if v.iter().fold(0.0f32, |a, &b| a + b) == 1.0 {
                        rep.cover("bg.tiny_positive_entry");
                    } else {
                        v[j] = 0.0;
                    }
                }
            }
            bgv = v;
            notes.push(format!("Background::new({:?})", bgv));
            rep.cover("bg.dyadic");
            if zero {
                rep.cover("bg.zero_entries");
            }
            match guard(|| Background::<A>::new(garr::<A>(&bgv))) {
                Ok(Ok(b)) => bg = b,
                Ok(Err(_)) => {
                    fail(rep, "c09.rejects_valid", format!("Background::new rejected frequencies in [0,1] summing exactly to 1: {:?}", bgv), &notes, J::Null);
                    return;
                }
                Err(p) => {
                    fail(rep, &format!("c09.panic:{}", panic_site(&p)), format!("panic in Background::new: {}", p), &notes, J::Null);
                    return;
                }
            }
        }
        3 => {
            let c: Vec<usize> = (0..k)
                .map(|j| {
                    if j == k - 1 && rng.chance(0.5) {
                        0
                    } else {
                        let lo = if rng.chance(0.2) { 0 } else { 1 };
                        rng.range(lo, 1000)
                    }
                })
                .collect();
            let total: usize = c.iter().sum();
            let c = if total == 0 { vec![1; k] } else { c };
            let total: usize = c.iter().sum();
            bgv = c.iter().map(|&x| (x as f64 / total as f64) as f32).collect();
            notes.push(format!("Background::from_counts({:?})", c));
            rep.cover("bg.from_counts");
            if c.iter().take(k - 1).any(|&x| x == 0) {
                rep.cover("bg.zero_entries");
            }
            let ga: GenericArray<usize, A::K> = c.iter().cloned().collect();
            match guard(|| Background::<A>::from_counts(&ga)) {
                Ok(Ok(b)) => bg = b,
                Ok(Err(_)) => {
                    fail(rep, "c09.rejects_valid", "Background::from_counts rejected non-zero counts".into(), &notes, J::Null);
                    return;
                }
                Err(p) => {
                    fail(rep, &format!("c09.panic:{}", panic_site(&p)), format!("panic in from_counts: {}", p), &notes, J::Null);
                    return;
                }
            }
        }
        _ => {
            let l = rng.range(1, 400);
            let unknown = rng.chance(0.5);
            let s: Vec<u8> = (0..l).map(|_| if rng.chance(0.1) { (k - 1) as u8 } else { rng.below(k - 1) as u8 }).collect();
            let mut c = vec![0usize; k];
            for &x in &s {
                if unknown || x as usize != k - 1 {
                    c[x as usize] += 1;
                }
            }
            let total: usize = c.iter().sum();
            if total == 0 {
                // only wildcards and unknown = false: must be rejected
                let enc = encoded::<A>(&s);
                let sl: &[A::Symbol] = enc.as_ref();
                if let Ok(Ok(_)) = guard(|| Background::<A>::from_sequence(sl, unknown)) {
                    fail(rep, "c09.accepts_invalid", "Background::from_sequence accepted a sequence without countable symbols".into(), &notes, J::Null);
                }
                return;
            }
            bgv = c.iter().map(|&x| (x as f64 / total as f64) as f32).collect();
            notes.push(format!("Background::from_sequence(len {}, unknown={})", l, unknown));
            rep.cover("bg.from_sequence");
            let enc = encoded::<A>(&s);
            let via_striped = rng.chance(0.5);
            let res = if via_striped {
                let st: StripedSequence<A, U32> = stripe_generic(&enc);
                guard(|| Background::<A>::from_sequences([st], unknown))
            } else {
                let sl: &[A::Symbol] = enc.as_ref();
                guard(|| Background::<A>::from_sequence(sl, unknown))
            };
            match res {
                Ok(Ok(b)) => bg = b,
                Ok(Err(_)) => {
                    fail(rep, "c09.rejects_valid", "Background::from_sequence rejected a countable sequence".into(), &notes, J::Null);
                    return;
                }
                Err(p) => {
                    fail(rep, &format!("c09.panic:{}", panic_site(&p)), format!("panic in from_sequence: {}", p), &notes, J::Null);
                    return;
                }
            }
        }
    }
    for j in 0..k {
        if !rel_close(bg.frequencies()[j] as f64, bgv[j] as f64, 1e-6) {
            fail(rep, "c09.background", format!("background[{}] = {}, expected {}", j, bg.frequencies()[j], bgv[j]), &notes, J::Null);
            return;
        }
    }

    // ---- weights and scores ---------------------------------------------------------
    let (base, base_name) = *rng.pick(&[(2.0f32, "2"), (10.0, "10"), (std::f32::consts::E, "e"), (3.7, "3.7")]);
    rep.cover(&format!("base.{}", base_name));
    let res = guard(|| {
        let weight = freq.to_weight(bg.clone());
        let two_step = weight.to_scoring_with_base(base);
        let two_step_b2 = weight.to_scoring();
        let one_step = freq.to_scoring(bg.clone());
        let into = freq.clone().into_scoring(bg.clone());
        let rescaled = freq.to_weight(None).rescale(bg.clone());
        let rescaled_scoring = rescaled.to_scoring();
        let back = weight.rescale(None);
        (weight, two_step, two_step_b2, one_step, into, rescaled, rescaled_scoring, back)
    });
    let (weight, two_step, two_step_b2, one_step, into, rescaled, rescaled_scoring, back) = match res {
        Ok(x) => x,
        Err(p) => {
            fail(rep, &format!("c09.panic:{}", panic_site(&p)), format!("panic in the conversions: {}", p), &notes, J::Null);
            return;
        }
    };
    rep.cover("route.one_step");
    rep.cover("route.two_step");
    rep.cover("route.rescale");
    let uni = 1.0 / (k - 1) as f64;
    let mut any_neg_inf = false;
    for i in 0..w {
        for j in 0..k {
            let f = freq.matrix()[i][j] as f64;
            let b = bgv[j] as f64;
            let w_ref = if b == 0.0 { 0.0 } else { f / b };
            let got_w = weight.matrix()[i][j] as f64;
            if !rel_close(got_w, w_ref, 1e-5) {
                fail(rep, "c09.weight", format!("weight[{}][{}] = {}, frequency/background = {} (frequency {}, background {})", i, j, got_w, w_ref, f, b), &notes, J::Null);
                return;
            }
            let s2_ref = if b == 0.0 || f == 0.0 { f64::NEG_INFINITY } else { (f / b).log2() };
            let sb_ref = if b == 0.0 || f == 0.0 { f64::NEG_INFINITY } else { (f / b).ln() / (base as f64).ln() };
            if s2_ref == f64::NEG_INFINITY {
                any_neg_inf = true;
            }
            for (name, got, expect) in [
                ("to_weight(bg).to_scoring()", two_step_b2.matrix()[i][j] as f64, s2_ref),
                ("to_scoring(bg)", one_step.matrix()[i][j] as f64, s2_ref),
                ("into_scoring(bg)", into.matrix()[i][j] as f64, s2_ref),
                ("to_weight(bg).to_scoring_with_base(base)", two_step.matrix()[i][j] as f64, sb_ref),
            ] {
                if !rel_close(got, expect, 2e-5) {
                    fail(
                        rep,
                        "c09.score",
                        format!("{}: score[{}][{}] = {}, log(frequency/background) = {} (frequency {}, background {}, base {})", name, i, j, got, expect, f, b, base),
                        &notes,
                        J::Null,
                    );
                    return;
                }
            }
            // rescale route: only judged where the old (uniform) background is not zero
            let old_b = if j == k - 1 { 0.0 } else { uni };
            if old_b != 0.0 {
                let got_rw = rescaled.matrix()[i][j] as f64;
                if !rel_close(got_rw, w_ref, 2e-5) {
                    fail(rep, "c09.rescale", format!("to_weight(None).rescale(bg): weight[{}][{}] = {}, expected {}", i, j, got_rw, w_ref), &notes, J::Null);
                    return;
                }
                let got_rs = rescaled_scoring.matrix()[i][j] as f64;
                if !rel_close(got_rs, s2_ref, 2e-5) {
                    fail(rep, "c09.rescale", format!("to_weight(None).rescale(bg).to_scoring(): score[{}][{}] = {}, expected {}", i, j, got_rs, s2_ref), &notes, J::Null);
                    return;
                }
            }
        }
    }
    // ... and the way back: to_weight(bg).rescale(None) carries the default background and the
    // weights frequency / uniform (judged where the old background is not zero; 0 for the wildcard)
    rep.cover("route.rescale_to_default");
    for j in 0..k {
        let want = if j == k - 1 { 0.0 } else { uni };
        if !rel_close(back.background().frequencies()[j] as f64, want, 1e-6) {
            fail(rep, "c09.rescale", format!("to_weight(bg).rescale(None) carries background[{}] = {}, the default background has {}", j, back.background().frequencies()[j], want), &notes, J::Null);
            return;
        }
    }
    for i in 0..w {
        for j in 0..k {
            if bgv[j] == 0.0 {
                continue;
            }
            let f = freq.matrix()[i][j] as f64;
            let want = if j == k - 1 { 0.0 } else { f / uni };
            let got = back.matrix()[i][j] as f64;
            if !rel_close(got, want, 2e-5) {
                fail(rep, "c09.rescale", format!("to_weight(bg).rescale(None): weight[{}][{}] = {}, frequency / default background = {}", i, j, got, want), &notes, J::Null);
                return;
            }
        }
    }
    if any_neg_inf {
        rep.cover("class.neg_inf_score");
    }
    for j in 0..k {
        if !rel_close(rescaled.background().frequencies()[j] as f64, bgv[j] as f64, 1e-6) || !rel_close(weight.background().frequencies()[j] as f64, bgv[j] as f64, 1e-6) {
            fail(rep, "c09.background", "the weight matrix does not carry the background it was built with".into(), &notes, J::Null);
            return;
        }
    }

    // ---- the default background (`None`): the uniform one, whose wildcard frequency is zero, so
    // the wildcard column weighs 0 and scores -inf on every route, also when the frequency matrix
    // gives the wildcard some mass (motif instances containing N / X)
    {
        let res = guard(|| {
            let w0 = freq.to_weight(None);
            let s_two = w0.to_scoring();
            let s_one = freq.to_scoring(None);
            let s_into = freq.clone().into_scoring(None);
            (w0, s_two, s_one, s_into)
        });
        match res {
            Err(p) => {
                fail(rep, &format!("c09.panic:{}", panic_site(&p)), format!("panic in the conversions with the default background: {}", p), &notes, J::Null);
                return;
            }
            Ok((w0, s_two, s_one, s_into)) => {
                rep.cover("route.default_background");
                for i in 0..w {
                    for j in 0..k {
                        let f = freq.matrix()[i][j] as f64;
                        let b = if j == k - 1 { 0.0 } else { uni };
                        let w_ref = if b == 0.0 { 0.0 } else { f / b };
                        let s_ref = if b == 0.0 || f == 0.0 { f64::NEG_INFINITY } else { (f / b).log2() };
                        if j == k - 1 && f > 0.0 {
                            rep.cover("class.wildcard_frequency_under_default_background");
                        }
                        if !rel_close(w0.matrix()[i][j] as f64, w_ref, 1e-5) {
                            fail(rep, "c09.weight", format!("to_weight(None)[{}][{}] = {}, frequency / uniform background = {}", i, j, w0.matrix()[i][j], w_ref), &notes, J::Null);
                            return;
                        }
                        for (name, got) in [("to_weight(None).to_scoring()", s_two.matrix()[i][j]), ("to_scoring(None)", s_one.matrix()[i][j]), ("into_scoring(None)", s_into.matrix()[i][j])] {
                            if !rel_close(got as f64, s_ref, 2e-5) {
                                fail(rep, "c09.score", format!("{}: score[{}][{}] = {}, log2(frequency / uniform background) = {} (frequency {})", name, i, j, got, s_ref, f), &notes, J::Null);
                                return;
                            }
                        }
                    }
                }
                for j in 0..k {
                    let b = if j == k - 1 { 0.0 } else { uni };
                    for (name, got) in [("to_weight(None)", w0.background().frequencies()[j]), ("to_scoring(None)", s_one.background().frequencies()[j]), ("into_scoring(None)", s_into.background().frequencies()[j])] {
                        if !rel_close(got as f64, b, 1e-6) {
                            fail(rep, "c09.background", format!("{}: background[{}] = {}, the default background has {}", name, j, got, b), &notes, J::Null);
                            return;
                        }
                    }
                }
            }
        }
    }

    // ---- conversion impls: From<WeightMatrix> for ScoringMatrix (= to_scoring) and the way back,
    // From<ScoringMatrix> for WeightMatrix (weight = 2^score, the background kept)
    {
        let res = guard(|| {
            let s_from: ScoringMatrix<A> = ScoringMatrix::from(weight.clone());
            let w_back: WeightMatrix<A> = WeightMatrix::from(two_step_b2.clone());
            (s_from, w_back)
        });
        match res {
            Err(p) => {
                fail(rep, &format!("c09.panic:{}", panic_site(&p)), format!("panic in the From conversions: {}", p), &notes, J::Null);
                return;
            }
            Ok((s_from, w_back)) => {
                rep.cover("route.from_impls");
                for i in 0..w {
                    for j in 0..k {
                        let a = s_from.matrix()[i][j];
                        let b = two_step_b2.matrix()[i][j];
                        if !(a == b || (a.is_nan() && b.is_nan())) {
                            fail(rep, "c09.score", format!("ScoringMatrix::from(weight)[{}][{}] = {} but weight.to_scoring() gives {}", i, j, a, b), &notes, J::Null);
                            return;
                        }
                        let got = w_back.matrix()[i][j] as f64;
                        let expect = weight.matrix()[i][j] as f64;
                        if !rel_close(got, expect, 2e-5) {
                            fail(rep, "c09.weight", format!("WeightMatrix::from(scoring)[{}][{}] = {}, the weight whose logarithm that score is: {}", i, j, got, expect), &notes, J::Null);
                            return;
                        }
                    }
                }
                for j in 0..k {
                    if !rel_close(w_back.background().frequencies()[j] as f64, bgv[j] as f64, 1e-6) || !rel_close(s_from.background().frequencies()[j] as f64, bgv[j] as f64, 1e-6) {
                        fail(rep, "c09.background", "a From conversion between weight and scoring matrices lost the background".into(), &notes, J::Null);
                        return;
                    }
                }
            }
        }
    }

    // ---- min / max score bracketing ---------------------------------------------------
    let pssm = &one_step;
    let rows: Vec<Vec<f32>> = (0..w).map(|i| pssm.matrix()[i].to_vec()).collect();
    let mn = pssm.min_score() as f64;
    let mx = pssm.max_score() as f64;
    let mn_ref: f64 = rows.iter().map(|r| r[..k - 1].iter().cloned().fold(f32::INFINITY, f32::min) as f64).sum();
    let mx_ref: f64 = rows.iter().map(|r| r[..k - 1].iter().cloned().fold(f32::NEG_INFINITY, f32::max) as f64).sum();
    if !rel_close(mn, mn_ref, 1e-5) || !rel_close(mx, mx_ref, 1e-5) {
        fail(rep, "c09.min_max", format!("min_score() = {} (expected {}), max_score() = {} (expected {})", mn, mn_ref, mx, mx_ref), &notes, J::Null);
        return;
    }
    // extreme words + random wildcard-free windows
    let argmax: Vec<u8> = rows.iter().map(|r| (0..k - 1).max_by(|&a, &b| r[a].partial_cmp(&r[b]).unwrap()).unwrap() as u8).collect();
    let argmin: Vec<u8> = rows.iter().map(|r| (0..k - 1).min_by(|&a, &b| r[a].partial_cmp(&r[b]).unwrap()).unwrap() as u8).collect();
    let mut seq: Vec<u8> = Vec::new();
    seq.extend(&argmax);
    seq.extend(&argmin);
    seq.extend((0..rng.range(w, 4 * w + 40)).map(|_| rng.below(k - 1) as u8));
    let exact = exact_scores(&rows, &seq);
    let enc = encoded::<A>(&seq);
    let mut st: StripedSequence<A, U32> = stripe_generic(&enc);
    st.configure(pssm);
    for (i, &(ex, abs)) in exact.iter().enumerate() {
        let got = pssm.score_position(&st, i) as f64;
        let slack = tol(w, abs) + 1e-5 * (1.0 + abs);
        rep.cover("windows.bracketed");
        if got.is_nan() || (got < mn - slack && !(got == f64::NEG_INFINITY && mn == f64::NEG_INFINITY)) || got > mx + slack {
            fail(rep, "c09.bracket", format!("wildcard-free window at {} scores {} (exact {}), outside [min_score {}, max_score {}]", i, got, ex, mn, mx), &notes, J::Null);
            return;
        }
    }
    if exact.len() > w {
        // the extreme words attain the bounds
        let smax = exact[0].0;
        let smin = exact[w].0;
        if !rel_close(smax, mx, 1e-4) || !(rel_close(smin, mn, 1e-4)) {
            fail(rep, "c09.min_max", format!("the best word scores {} but max_score() = {}; the worst word scores {} but min_score() = {}", smax, mx, smin, mn), &notes, J::Null);
            return;
        }
    }

    // ---- invalid inputs ----------------------------------------------------------------
    {
        // frequency rows not summing to one
        let mut dm = DenseMatrix::<f32, A::K>::new(w);
        for i in 0..w {
            for j in 0..k {
                dm[i][j] = f_ref[i][j] as f32;
            }
        }
        let good = dm.clone();
        let bad_row = rng.below(w);
        let delta = *rng.pick(&[0.05f32, -0.05, 0.3, 1.0, -0.5]);
        dm[bad_row][rng.below(k - 1)] += delta;
        rep.cover("invalid.freq_row_sum");
        match guard(|| FrequencyMatrix::<A>::new(dm)) {
            Ok(Err(_)) => {}
            Ok(Ok(_)) => fail(rep, "c09.accepts_invalid", format!("FrequencyMatrix::new accepted a row summing to 1{:+}", delta), &notes, J::Null),
            Err(p) => fail(rep, &format!("c09.panic:{}", panic_site(&p)), format!("panic in FrequencyMatrix::new: {}", p), &notes, J::Null),
        }
        // rows holding a value that is no frequency at all: NaN, +inf and -inf together (their sum is
        // NaN), an infinity, a negative / above-one cell compensated elsewhere
        {
            let mut bad = good.clone();
            let r = rng.below(w);
            let a = rng.below(k - 1);
            let b = (a + 1 + rng.below((k - 2).max(1))) % (k - 1);
            let what = match rng.below(5) {
                0 => {
                    bad[r][a] = f32::NAN;
                    "a NaN cell"
                }
                1 => {
                    bad[r][a] = f32::INFINITY;
                    bad[r][b] = f32::NEG_INFINITY;
                    "+inf and -inf in one row"
                }
                2 => {
                    bad[r][a] = f32::INFINITY;
                    "an infinite cell"
                }
                3 => {
                    for x in bad[r].iter_mut() {
                        *x = f32::NAN;
                    }
                    "an all-NaN row"
                }
                _ => {
                    bad[r][a] = f32::NEG_INFINITY;
                    "a -inf cell"
                }
            };
            rep.cover("invalid.freq_not_a_number");
            match guard(|| FrequencyMatrix::<A>::new(bad)) {
                Ok(Err(_)) => {}
                Ok(Ok(_)) => fail(rep, "c09.accepts_invalid", format!("FrequencyMatrix::new accepted a row with {}", what), &notes, J::Null),
                Err(p) => fail(rep, &format!("c09.panic:{}", panic_site(&p)), format!("panic in FrequencyMatrix::new: {}", p), &notes, J::Null),
            }
        }
        match guard(|| FrequencyMatrix::<A>::new(good)) {
            Ok(Ok(_)) => {}
            Ok(Err(_)) => fail(rep, "c09.rejects_valid", "FrequencyMatrix::new rejected rows summing to one".into(), &notes, J::Null),
            Err(p) => fail(rep, &format!("c09.panic:{}", panic_site(&p)), format!("panic in FrequencyMatrix::new: {}", p), &notes, J::Null),
        }
        // invalid backgrounds
        let base_bg = dyadic_bg(rng, k, false);
        let mut checks: Vec<(Vec<f32>, &str, &str)> = Vec::new();
        let mut v = base_bg.clone();
        let j = rng.below(k - 1);
        v[j] = -v[j].max(0.0625);
        checks.push((v, "negative frequency", "invalid.bg_out_of_range"));
        let mut v = base_bg.clone();
        v[rng.below(k - 1)] = 1.5;
        checks.push((v, "frequency above one", "invalid.bg_out_of_range"));
        // a single violated condition: one negative entry, compensated so that the total is still
        // exactly one (dyadic values) and every other entry stays inside [0,1]
        for _ in 0..3 {
            let mut v = base_bg.clone();
            let i = rng.below(k);
            let mut j = rng.below(k - 1);
            if j == i {
                j = (j + 1) % (k - 1);
            }
            if j != i {
                let d = *rng.pick(&[0.0625f32, 0.125, 0.25]);
                let vi = v[i];
                v[j] += vi + d;
                v[i] = -d;
                if v[j] <= 1.0 && (v.iter().map(|&x| x as f64).sum::<f64>() - 1.0).abs() < 1e-12 {
                    checks.push((v, "negative frequency compensated so that the sum is exactly one", "invalid.bg_negative_sum_one"));
                }
            }
        }
        let mut v = base_bg.clone();
        {
            let i = rng.below(k - 1);
            let mut j = rng.below(k - 1);
            if j == i {
                j = (j + 1) % (k - 1);
            }
            let rest: f32 = 1.0 - v[i] - v[j];
            v[i] = 1.25;
            v[j] = -0.25 - rest;
            checks.push((v, "frequency above one compensated by a negative one", "invalid.bg_out_of_range"));
        }
        let mut v = base_bg.clone();
        v[rng.below(k)] = f32::NAN;
        checks.push((v, "NaN frequency", "invalid.bg_nan"));
        let mut v = base_bg.clone();
        let j = (0..k - 1).max_by(|&a, &b| v[a].partial_cmp(&v[b]).unwrap()).unwrap();
        v[j] -= (*rng.pick(&[0.015625f32, 0.03125, 0.125])).min(v[j]);
        checks.push((v, "sum below one", "invalid.bg_sum"));
        let mut v = base_bg.clone();
        v[k - 1] = 0.0625;
        checks.push((v, "sum above one", "invalid.bg_sum"));
        for (v, what, key) in checks {
            rep.cover(key);
            match guard(|| Background::<A>::new(garr::<A>(&v))) {
                Ok(Err(_)) => {}
                Ok(Ok(_)) => fail(rep, "c09.accepts_invalid", format!("Background::new accepted {} ({:?})", what, v), &notes, J::Null),
                Err(p) => fail(rep, &format!("c09.panic:{}", panic_site(&p)), format!("panic in Background::new: {}", p), &notes, J::Null),
            }
        }
    }

    if bgv.iter().take(k - 1).any(|&b| (b as f64 - uni).abs() > 1e-6) || pseudo.iter().any(|&p| p != 0.0) {
        let mut d = Digest::new();
        d.bytes(alpha.as_bytes()).f32s(&pseudo).f32s(&bgv).u(base.to_bits() as u64);
        for r in &counts {
            for &c in r {
                d.u(c as u64);
            }
        }
        rep.nontrivial(d.get());
    }
    rep.sample(|| {
        J::obj()
            .set("case", J::UInt(case))
            .set("alphabet", J::s(alpha))
            .set("width", J::u(w))
            .set("setup", J::Arr(notes.iter().map(|n| J::s(n.clone())).collect()))
            .set("base", J::s(base_name))
            .set("first_score_row", J::Arr(rows[0].iter().map(|&x| J::f(x as f64)).collect()))
    });
}

/// The same count -> frequency definition behind the TRANSFAC record type of lightmotif-io
/// (`Record::to_counts`, `Record::to_freq`): a record read from text, rows with differing totals.
fn transfac_route(case: u64, rng: &mut Rng, rep: &mut Report) {
    rep.eval();
    rep.cover("route.transfac_record");
    let w = rng.range(1, 20);
    let equal_totals = rng.chance(0.3);
    let total = rng.range(4, 400);
    let counts: Vec<[u32; 4]> = (0..w)
        .map(|_| {
            if equal_totals {
                let a = rng.below(total + 1);
                let b = rng.below(total - a + 1);
                let c = rng.below(total - a - b + 1);
                [a as u32, b as u32, c as u32, (total - a - b - c) as u32]
            } else {
                let hi = *rng.pick(&[3usize, 40, 1000]);
                let mut r = [rng.below(hi) as u32, rng.below(hi) as u32, rng.below(hi) as u32, rng.below(hi) as u32];
                if r.iter().all(|&x| x == 0) {
                    r[rng.below(4)] = 1;
                }
                r
            }
        })
        .collect();
    // columns in the file order A C G T; the library stores A C T G N
    let mut text = String::from("ID  case\nXX\nP0      A      C      G      T\n");
    for (i, r) in counts.iter().enumerate() {
        text.push_str(&format!("{:02}      {}      {}      {}      {}      N\n", i + 1, r[0], r[1], r[2], r[3]));
    }
    text.push_str("XX\n//\n");
    let pseudo = *rng.pick(&[0.0f32, 0.1, 0.25, 1.0]);
    let fail = |rep: &mut Report, kind: &str, msg: String| {
        rep.violate(kind, case, msg, J::obj().set("route", J::s("transfac record")).set("pseudocount", J::f(pseudo as f64)).set("file", J::s(text.clone())));
    };
    let rec = match guard(|| lightmotif_io::transfac::read::<_, Dna>(std::io::Cursor::new(text.as_bytes())).next()) {
        Ok(Some(Ok(r))) => r,
        other => {
            fail(rep, "c09.setup", format!("could not read the generated TRANSFAC record: {:?}", other.map(|x| x.map(|y| y.is_ok()))));
            return;
        }
    };
    let lib_cols = [0usize, 1, 3, 2]; // file column -> library column (A C G T -> A C T G)
    let res = guard(|| (rec.to_counts(), rec.to_freq(pseudo)));
    let (cm, fm) = match res {
        Ok(x) => x,
        Err(p) => {
            fail(rep, &format!("c09.panic:{}", panic_site(&p)), format!("panic in Record::to_counts / to_freq: {}", p));
            return;
        }
    };
    let cm = match cm {
        Some(c) => c,
        None => {
            fail(rep, "c09.rejects_valid", "Record::to_counts() returned None for integer counts".into());
            return;
        }
    };
    for i in 0..w {
        for f in 0..4 {
            if cm.matrix()[i][lib_cols[f]] != counts[i][f] {
                fail(rep, "c09.counts", format!("Record::to_counts()[{}][{}] = {}, the file says {}", i, lib_cols[f], cm.matrix()[i][lib_cols[f]], counts[i][f]));
                return;
            }
        }
    }
    let all_zero_row = pseudo == 0.0 && counts.iter().any(|r| r.iter().all(|&x| x == 0));
    let fm = match fm {
        Some(f) => f,
        None => {
            if !all_zero_row {
                fail(rep, "c09.rejects_valid", format!("Record::to_freq({}) returned None for valid count data (row totals {:?})", pseudo, counts.iter().map(|r| r.iter().sum::<u32>()).take(6).collect::<Vec<_>>()));
            }
            return;
        }
    };
    let core = cm.to_freq(pseudo);
    for i in 0..w {
        let tot: f64 = counts[i].iter().map(|&x| x as f64 + pseudo as f64).sum();
        let mut sum = 0.0f64;
        for j in 0..5 {
            sum += fm.matrix()[i][j] as f64;
        }
        if (sum - 1.0).abs() > 1e-4 {
            fail(rep, "c09.frequency", format!("Record::to_freq({}): row {} sums to {}", pseudo, i, sum));
            return;
        }
        for f in 0..4 {
            let expect = (counts[i][f] as f64 + pseudo as f64) / tot;
            let got = fm.matrix()[i][lib_cols[f]] as f64;
            let via_core = core.matrix()[i][lib_cols[f]] as f64;
            if !rel_close(got, expect, 1e-5) || !rel_close(got, via_core, 1e-5) {
                fail(rep, "c09.frequency", format!("Record::to_freq({})[{}][{}] = {}, (count + pseudocount) / row total = {} (to_counts().to_freq() gives {})", pseudo, i, lib_cols[f], got, expect, via_core));
                return;
            }
        }
    }
    if w >= 2 && !equal_totals {
        let mut d = Digest::new();
        d.bytes(text.as_bytes()).u(pseudo.to_bits() as u64);
        rep.nontrivial(d.get());
    }
}

pub fn run(cfg: &Config) -> Report {
    let n = cfg.n(20_000, 600_000) as u64;
    run_cases(cfg, n, |case, rng, rep| {
        if case % 16 == 7 {
            transfac_route(case, rng, rep)
        } else if case % 3 == 2 {
            run_case::<Protein>(case, rng, rep, "protein")
        } else {
            run_case::<Dna>(case, rng, rep, "dna")
        }
    })
}
