//! Reference models and generators shared by the monitors.
use std::ops::Range;

use lightmotif::abc::{Alphabet, Background, Symbol};
use lightmotif::dense::DenseMatrix;
use lightmotif::num::{PositiveLength, Unsigned, U16, U32};
use lightmotif::pli::dispatch::Dispatch;
use lightmotif::pli::{Pipeline, Score, Stripe};
use lightmotif::pwm::ScoringMatrix;
use lightmotif::scores::StripedScores;
use lightmotif::seq::{EncodedSequence, StripedSequence};

use crate::rng::Rng;

/// A user-defined alphabet with five regular symbols and a wildcard (public traits): an odd number
/// of regular symbols, not a multiple of four.
#[derive(Clone, Copy, Debug, Default, PartialEq, Eq)]
#[repr(u8)]
pub enum L6 {
    A = 0,
    B = 1,
    C = 2,
    D = 3,
    E = 4,
    #[default]
    X = 5,
}

const L6_ALL: [L6; 6] = [L6::A, L6::B, L6::C, L6::D, L6::E, L6::X];

impl Symbol for L6 {
    fn as_index(&self) -> usize {
        *self as usize
    }
    fn as_ascii(&self) -> u8 {
        b"ABCDEX"[*self as usize]
    }
    fn from_ascii(c: u8) -> Result<Self, lightmotif::err::InvalidSymbol> {
        match b"ABCDEX".iter().position(|&x| x == c) {
            Some(i) => Ok(L6_ALL[i]),
            None => Err(lightmotif::err::InvalidSymbol(c as char)),
        }
    }
}

#[derive(Clone, Copy, Debug, Default, PartialEq, Eq)]
pub struct Abc6;

impl Alphabet for Abc6 {
    type Symbol = L6;
    type K = lightmotif::num::U6;
    fn symbols() -> &'static [L6] {
        &L6_ALL
    }
    fn as_str() -> &'static str {
        "ABCDEX"
    }
}

pub fn k_of<A: Alphabet>() -> usize {
    A::K::USIZE
}

pub fn sym<A: Alphabet>(i: u8) -> A::Symbol {
    A::symbols()[i as usize]
}

pub fn encoded<A: Alphabet>(s: &[u8]) -> EncodedSequence<A> {
    // exact capacity on purpose (a red zone follows the last symbol under ASan)
    let mut v = Vec::with_capacity(s.len());
    for &i in s {
        v.push(sym::<A>(i));
    }
    EncodedSequence::new(v)
}

pub fn text_of<A: Alphabet>(s: &[u8]) -> String {
    s.iter().map(|&i| sym::<A>(i).as_char()).collect()
}

pub fn stripe_generic<A: Alphabet, C: PositiveLength>(enc: &EncodedSequence<A>) -> StripedSequence<A, C> {
    let pli = Pipeline::<A, _>::generic();
    <Pipeline<A, _> as Stripe<A, C>>::stripe(&pli, enc)
}

/// A striped sequence built by hand over a matrix that is TALLER than the sequence needs
/// (`extra` more rows than ceil(L/C)): legal for `StripedSequence::new`, whose stripe height is the
/// matrix row count; symbol i sits at row i mod R, column i div R with R = rows.
pub fn stripe_tall<A: Alphabet, C: PositiveLength>(s: &[u8], extra: usize) -> StripedSequence<A, C> {
    let c = C::USIZE;
    let r = (s.len() + c - 1) / c + extra;
    let mut m = DenseMatrix::<A::Symbol, C>::new(r);
    for row in 0..r {
        for col in 0..c {
            m[row][col] = A::default_symbol();
        }
    }
    for (i, &x) in s.iter().enumerate() {
        m[i % r][i / r] = sym::<A>(x);
    }
    StripedSequence::new(m, s.len()).expect("rows x columns >= length")
}

pub fn dense<A: Alphabet>(rows: &[Vec<f32>]) -> DenseMatrix<f32, A::K> {
    let mut m = DenseMatrix::<f32, A::K>::new(rows.len());
    for (i, r) in rows.iter().enumerate() {
        for (j, &x) in r.iter().enumerate() {
            m[i][j] = x;
        }
    }
    m
}

pub fn scoring<A: Alphabet>(rows: &[Vec<f32>]) -> ScoringMatrix<A> {
    ScoringMatrix::new(Background::uniform(), dense::<A>(rows))
}

/// exact (f64) score and the sum of absolute finite terms, for every valid position
pub fn exact_scores(rows: &[Vec<f32>], seq: &[u8]) -> Vec<(f64, f64)> {
    let m = rows.len();
    if m == 0 || seq.len() < m {
        return Vec::new();
    }
    (0..=seq.len() - m)
        .map(|i| {
            let mut s = 0.0f64;
            let mut a = 0.0f64;
            let mut neg_inf = false;
            for j in 0..m {
                let t = rows[j][seq[i + j] as usize] as f64;
                if t == f64::NEG_INFINITY {
                    neg_inf = true;
                } else {
                    s += t;
                    a += t.abs();
                }
            }
            if neg_inf {
                (f64::NEG_INFINITY, a)
            } else {
                (s, a)
            }
        })
        .collect()
}

/// bound on the f32 summation error of a window (generous: 4*M*eps32*sum|terms|)
pub fn tol(m: usize, abs_sum: f64) -> f64 {
    4.0 * (m as f64) * (f32::EPSILON as f64) * abs_sum + 1e-30
}

// --- generators --------------------------------------------------------------

#[derive(Clone, Copy, Debug, PartialEq, Eq)]
pub enum MatKind {
    /// counts + pseudocount -> log-odds, wildcard column -inf
    LogOdds,
    /// arbitrary finite values in [-20, 20] including a finite wildcard column
    Finite,
    /// counts without pseudocount: -inf entries for unseen symbols, -inf wildcard column
    ZeroCounts,
    /// small integers (sums are exact in f32), finite integer wildcard column
    SmallInt,
    /// few distinct fractional values (many ties / near-ties), -inf wildcard
    FewValued,
}

pub const MAT_KINDS: [MatKind; 5] = [
    MatKind::LogOdds,
    MatKind::Finite,
    MatKind::ZeroCounts,
    MatKind::SmallInt,
    MatKind::FewValued,
];

pub fn gen_matrix(rng: &mut Rng, k: usize, m: usize, kind: MatKind) -> Vec<Vec<f32>> {
    let mut rows = Vec::with_capacity(m);
    for _ in 0..m {
        let mut r = vec![0f32; k];
        match kind {
            MatKind::LogOdds | MatKind::ZeroCounts => {
                let n = rng.range(4, 40) as f32;
                let mut counts = vec![0f32; k - 1];
                for _ in 0..n as usize {
                    let j = if rng.chance(0.5) { rng.below(k - 1) } else { rng.below((k - 1).min(3)) };
                    counts[j] += 1.0;
                }
                let pseudo = if kind == MatKind::LogOdds { 0.1 + rng.f32_in(0.0, 0.5) } else { 0.0 };
                let total: f32 = counts.iter().map(|c| c + pseudo).sum();
                for j in 0..k - 1 {
                    let f = (counts[j] + pseudo) / total;
                    r[j] = (f / (1.0 / (k - 1) as f32)).log2();
                }
                r[k - 1] = f32::NEG_INFINITY;
            }
            MatKind::Finite => {
                for j in 0..k {
                    r[j] = rng.f32_in(-20.0, 20.0);
                }
            }
            MatKind::SmallInt => {
                for j in 0..k {
                    r[j] = rng.range(0, 16) as f32 - 8.0;
                }
            }
            MatKind::FewValued => {
                let vals = [-1.7320508f32, -0.4142135, 0.3010300, 0.6931472, 1.0986123];
                for j in 0..k - 1 {
                    r[j] = *rng.pick(&vals);
                }
                r[k - 1] = f32::NEG_INFINITY;
            }
        }
        rows.push(r);
    }
    rows
}

#[derive(Clone, Copy, Debug, PartialEq, Eq)]
pub enum SeqKind {
    Uniform,
    Wild5,
    Wild50,
    Homopolymer,
    Skewed,
    /// the 32 (or 16) striped columns alternate between blocks of "low" and "high" symbols
    ColumnBlocks,
}

pub const SEQ_KINDS: [SeqKind; 6] = [
    SeqKind::ColumnBlocks,
    SeqKind::Uniform,
    SeqKind::Wild5,
    SeqKind::Wild50,
    SeqKind::Homopolymer,
    SeqKind::Skewed,
];

pub fn gen_seq(rng: &mut Rng, k: usize, len: usize, kind: SeqKind) -> Vec<u8> {
    let mut v = Vec::with_capacity(len);
    let h = rng.below(k - 1) as u8;
    // ColumnBlocks: symbol classes by striped column (rows = ceil(len / 32)), block period 16 or 32
    let cb_rows = ((len + 31) / 32).max(1);
    let cb_period = if rng.chance(0.5) { 16 } else { 32 };
    let cb_split = rng.below(k - 1); // low symbols: 0..=cb_split, high ones: the rest incl. the wildcard
    let cb_flip = rng.chance(0.5);
    for pos in 0..len {
        let s = match kind {
            SeqKind::Uniform => rng.below(k - 1) as u8,
            SeqKind::Wild5 => {
                if rng.chance(0.05) {
                    (k - 1) as u8
                } else {
                    rng.below(k - 1) as u8
                }
            }
            SeqKind::Wild50 => {
                if rng.chance(0.5) {
                    (k - 1) as u8
                } else {
                    rng.below(k - 1) as u8
                }
            }
            SeqKind::Homopolymer => h,
            SeqKind::ColumnBlocks => {
                let col = pos / cb_rows;
                let low = ((col % cb_period) < cb_period / 2) != cb_flip;
                if rng.chance(0.01) {
                    rng.below(k) as u8
                } else if low || cb_split + 1 >= k {
                    rng.below(cb_split + 1) as u8
                } else {
                    (cb_split + 1 + rng.below(k - 1 - cb_split)) as u8
                }
            }
            SeqKind::Skewed => {
                if rng.chance(0.7) {
                    h
                } else {
                    rng.below(k - 1) as u8
                }
            }
        };
        v.push(s);
    }
    v
}

/// the boundary length set of DESIGN.md section 3
pub fn boundary_lengths(m: usize, thorough: bool) -> Vec<usize> {
    let mut v: Vec<usize> = vec![
        0, 1, 2, 15, 16, 17, 31, 32, 33, 63, 64, 65, 991, 992, 993, 1023, 1024, 1025, 1031, 1055, 1056, 1057,
        2047, 2048, 2049,
    ];
    v.extend([m.saturating_sub(1), m, m + 1]);
    if thorough {
        v.extend([8191, 8192, 8193, 32 * 256 - 33, 32 * 256 - 31, 32 * 256 + 31, 32 * 256 + 33]);
    }
    v.sort();
    v.dedup();
    v
}

pub const WIDTHS: [usize; 14] = [1, 2, 3, 5, 8, 15, 16, 17, 31, 32, 33, 34, 40, 64];

// --- backend arms ------------------------------------------------------------

#[derive(Clone, Copy, Debug, PartialEq, Eq)]
pub enum Arm {
    Generic,
    Sse2,
    Avx2,
    DispGeneric,
    DispSse2,
    DispAvx2,
    DispAuto,
}

pub const ARMS32: [Arm; 7] = [
    Arm::Generic,
    Arm::Sse2,
    Arm::Avx2,
    Arm::DispGeneric,
    Arm::DispSse2,
    Arm::DispAvx2,
    Arm::DispAuto,
];

pub const DISP_ARMS: [Arm; 4] = [Arm::DispGeneric, Arm::DispSse2, Arm::DispAvx2, Arm::DispAuto];

impl Arm {
    pub fn name(self) -> &'static str {
        match self {
            Arm::Generic => "generic",
            Arm::Sse2 => "sse2",
            Arm::Avx2 => "avx2",
            Arm::DispGeneric => "dispatch[generic]",
            Arm::DispSse2 => "dispatch[sse2]",
            Arm::DispAvx2 => "dispatch[avx2]",
            Arm::DispAuto => "dispatch[auto]",
        }
    }
    pub fn forced(self) -> Option<Option<Dispatch>> {
        match self {
            Arm::DispGeneric => Some(Some(Dispatch::Generic)),
            Arm::DispSse2 => Some(Some(Dispatch::Sse2)),
            Arm::DispAvx2 => Some(Some(Dispatch::Avx2)),
            Arm::DispAuto => Some(None),
            _ => None,
        }
    }
    pub fn is_dispatch(self) -> bool {
        self.forced().is_some()
    }
}

/// Build the dispatching pipeline for one of the dispatch arms (forcing through the hook).
pub fn dispatch_pipeline<A: Alphabet>(arm: Arm) -> Pipeline<A, Dispatch> {
    force(arm);
    let p = Pipeline::<A, Dispatch>::dispatch();
    p
}

/// Set the thread-local override for `arm` (no-op override for non-dispatch arms).
pub fn force(arm: Arm) {
    match arm.forced() {
        Some(f) => lightmotif::pli::dispatch::verif_force_backend(f),
        None => lightmotif::pli::dispatch::verif_force_backend(None),
    }
}

pub fn unforce() {
    lightmotif::pli::dispatch::verif_force_backend(None);
}

/// f32 scoring with 32 columns through any arm
pub fn score32<A: Alphabet>(
    arm: Arm,
    pssm: &ScoringMatrix<A>,
    seq: &StripedSequence<A, U32>,
    rows: Option<Range<usize>>,
    out: &mut StripedScores<f32, U32>,
) {
    macro_rules! go {
        ($p:expr) => {{
            let p = $p;
            match rows {
                Some(r) => p.score_rows_into(pssm, seq, r, out),
                None => p.score_into(pssm, seq, out),
            }
        }};
    }
    match arm {
        Arm::Generic => go!(Pipeline::<A, _>::generic()),
        Arm::Sse2 => go!(Pipeline::<A, _>::sse2().unwrap()),
        Arm::Avx2 => go!(Pipeline::<A, _>::avx2().unwrap()),
        _ => {
            let p = dispatch_pipeline::<A>(arm);
            go!(p);
            unforce();
        }
    }
}

/// f32 scoring with 16 columns (generic and sse2 only)
pub fn score16<A: Alphabet>(
    arm: Arm,
    pssm: &ScoringMatrix<A>,
    seq: &StripedSequence<A, U16>,
    rows: Option<Range<usize>>,
    out: &mut StripedScores<f32, U16>,
) {
    macro_rules! go {
        ($p:expr) => {{
            let p = $p;
            match rows {
                Some(r) => p.score_rows_into(pssm, seq, r, out),
                None => p.score_into(pssm, seq, out),
            }
        }};
    }
    match arm {
        Arm::Generic => go!(Pipeline::<A, _>::generic()),
        Arm::Sse2 => go!(Pipeline::<A, _>::sse2().unwrap()),
        _ => unreachable!("no 16-column implementation for this arm"),
    }
}

pub fn fmt_seq_short<A: Alphabet>(s: &[u8]) -> String {
    let t = text_of::<A>(s);
    if t.len() <= 96 {
        t
    } else {
        format!("{}...({} symbols)...{}", &t[..40], t.len(), &t[t.len() - 40..])
    }
}
