//! C04 - striping is a lossless, backend-independent rearrangement of the sequence.
use lightmotif::abc::{Alphabet, Dna, Protein};
use lightmotif::num::{PositiveLength, U1, U16, U2, U32, U4};
use lightmotif::pli::{Pipeline, Stripe};
use lightmotif::seq::{EncodedSequence, StripedSequence, SymbolCount};

use crate::common::*;
use crate::json::J;
use crate::model::*;
use crate::rng::Rng;

pub const RULE: &str = "case = one operation history on ONE StripedSequence buffer: stripe (fresh) / stripe_into (reuse with a shorter, longer or empty sequence) / configure_wrap(m) with m growing, shrinking, 0, > rows, > the 32 spare rows / configure(&pssm) / clone, through generic (C in {1,2,4,16,32}), avx2, dispatch forced to each arm and unforced, and EncodedSequence::to_striped; DNA and protein. After EVERY operation the whole matrix is compared with the cell map of the definition (symbol i at row i mod R, column i div R, wildcard elsewhere; look-ahead row k = matrix row k shifted left by one column, wildcard in the last column), plus len(), wrap(), Index for every i, count_symbol(s), count_symbols(); the linear sequence itself (EncodedSequence: len, Index, iter, counts through the sequence and slice impls, equality, From<Vec> / FromIterator / Default) and the conversions StripedSequence::from(encoded), DenseMatrix::from(striped), StripedSequence::new(matrix, L) are checked against the same byte model. Boundary lengths (incl. every residue mod 32 where the AVX2 32x32 transpose block is entered) are enumerated on every run. Non-trivial = history whose buffer held at least one non-empty sequence and one configure_wrap; distinct = distinct (alphabet, C, arm, op sequence incl. lengths).";

pub const REQUIRED: &[&str] = &[
    "arm.generic.c1", "arm.generic.c2", "arm.generic.c4", "arm.generic.c16", "arm.generic.c32", "arm.avx2.c32",
    "arm.dispatch[generic].c32", "arm.dispatch[sse2].c32", "arm.dispatch[avx2].c32", "arm.dispatch[auto].c32",
    "arm.to_striped.c32", "alphabet.dna", "alphabet.protein", "op.stripe", "op.stripe_into", "op.configure_wrap",
    "op.configure", "op.clone", "class.avx2_transpose_block", "class.wrap>rows", "class.wrap>32",
    "class.rows>=256", "class.reuse_longer_for_shorter", "class.reuse_for_empty", "class.second_larger_wrap", "dispatch_forced.generic",
    "dispatch_forced.sse2", "dispatch_forced.avx2",
];

pub trait Striper<A: Alphabet, C: PositiveLength> {
    fn name(&self) -> String;
    fn stripe(&self, enc: &EncodedSequence<A>) -> StripedSequence<A, C>;
    fn stripe_into(&self, enc: &EncodedSequence<A>, dst: &mut StripedSequence<A, C>);
}

pub struct GenericStriper;
impl<A: Alphabet, C: PositiveLength> Striper<A, C> for GenericStriper {
    fn name(&self) -> String {
        "generic".into()
    }
    fn stripe(&self, enc: &EncodedSequence<A>) -> StripedSequence<A, C> {
        let pli = Pipeline::<A, _>::generic();
        <Pipeline<A, _> as Stripe<A, C>>::stripe(&pli, enc)
    }
    fn stripe_into(&self, enc: &EncodedSequence<A>, dst: &mut StripedSequence<A, C>) {
        let pli = Pipeline::<A, _>::generic();
        <Pipeline<A, _> as Stripe<A, C>>::stripe_into(&pli, enc, dst)
    }
}

/// 32-column stripers: avx2 directly, dispatch (forced / unforced), EncodedSequence::to_striped
pub struct Arm32 {
    pub arm: Arm,
    pub via_to_striped: bool,
}
impl<A: Alphabet> Striper<A, U32> for Arm32 {
    fn name(&self) -> String {
        if self.via_to_striped {
            "to_striped".into()
        } else {
            self.arm.name().into()
        }
    }
    fn stripe(&self, enc: &EncodedSequence<A>) -> StripedSequence<A, U32> {
        match self.arm {
            Arm::Generic => <GenericStriper as Striper<A, U32>>::stripe(&GenericStriper, enc),
            Arm::Avx2 => Pipeline::<A, _>::avx2().unwrap().stripe(enc),
            arm => {
                force(arm);
                let r = if self.via_to_striped { if enc.len() % 2 == 0 { enc.to_striped() } else { StripedSequence::<A, U32>::from(enc.clone()) } } else { Pipeline::<A, _>::dispatch().stripe(enc) };
                unforce();
                r
            }
        }
    }
    fn stripe_into(&self, enc: &EncodedSequence<A>, dst: &mut StripedSequence<A, U32>) {
        match self.arm {
            Arm::Generic => <GenericStriper as Striper<A, U32>>::stripe_into(&GenericStriper, enc, dst),
            Arm::Avx2 => Pipeline::<A, _>::avx2().unwrap().stripe_into(enc, dst),
            arm => {
                force(arm);
                let p = Pipeline::<A, _>::dispatch();
                unforce();
                p.stripe_into(enc, dst)
            }
        }
    }
}

fn check_state<A: Alphabet, C: PositiveLength>(
    seq: &StripedSequence<A, C>,
    s: &[u8],
    wrap: usize,
    op: &str,
) -> Result<(), String> {
    let c = C::USIZE;
    let l = s.len();
    let r = (l + c - 1) / c;
    let wild = A::default_symbol();
    if seq.len() != l {
        return Err(format!("after {}: len() = {}, expected {}", op, seq.len(), l));
    }
    if seq.is_empty() != (l == 0) {
        return Err(format!("after {}: is_empty() = {} with length {}", op, seq.is_empty(), l));
    }
    if seq.wrap() != wrap {
        return Err(format!("after {}: wrap() = {}, expected {}", op, seq.wrap(), wrap));
    }
    let m = seq.matrix();
    if m.rows() != r + wrap {
        return Err(format!("after {}: matrix has {} rows, expected {} sequence rows + {} look-ahead rows", op, m.rows(), r, wrap));
    }
    for row in 0..r {
        let cells = &m[row];
        if (cells.as_ptr() as usize) % 32 != 0 {
            return Err(format!("after {}: row {} is not 32-byte aligned", op, row));
        }
        for col in 0..c {
            let i = col * r + row;
            let expect = if i < l { sym::<A>(s[i]) } else { wild };
            if cells[col] != expect {
                return Err(format!(
                    "after {}: cell (row {}, column {}) holds {:?}, expected {:?} (symbol index {}, L={}, R={})",
                    op, row, col, cells[col], expect, i, l, r
                ));
            }
        }
    }
    for k in 0..wrap {
        for col in 0..c {
            let expect = if col + 1 < c { m[k][col + 1] } else { wild };
            if m[r + k][col] != expect {
                return Err(format!(
                    "after {}: look-ahead row {} column {} holds {:?}, expected {:?} (matrix row {} shifted left)",
                    op, k, col, m[r + k][col], expect, k
                ));
            }
        }
    }
    for i in 0..l {
        if seq[i] != sym::<A>(s[i]) {
            return Err(format!("after {}: seq[{}] = {:?}, the linear sequence has {:?}", op, i, seq[i], sym::<A>(s[i])));
        }
    }
    let k = k_of::<A>();
    let mut counts = vec![0usize; k];
    for &x in s {
        counts[x as usize] += 1;
    }
    let got = SymbolCount::<A>::count_symbols(seq);
    for j in 0..k {
        if got[j] != counts[j] {
            return Err(format!("after {}: count_symbols()[{}] = {}, linear count {}", op, j, got[j], counts[j]));
        }
        let one = SymbolCount::<A>::count_symbol(seq, sym::<A>(j as u8));
        if one != counts[j] {
            return Err(format!("after {}: count_symbol({:?}) = {}, linear count {}", op, sym::<A>(j as u8), one, counts[j]));
        }
    }
    check_linear::<A, C>(s, op)
}

/// "the same answers as the linear sequence": the linear (encoded) sequence and its conversions
/// answer like the byte model too
fn check_linear<A: Alphabet, C: PositiveLength>(s: &[u8], op: &str) -> Result<(), String> {
    let k = k_of::<A>();
    let l = s.len();
    let syms: Vec<A::Symbol> = s.iter().map(|&x| sym::<A>(x)).collect();
    let enc = EncodedSequence::<A>::new(syms.clone());
    let mut counts = vec![0usize; k];
    for &x in s {
        counts[x as usize] += 1;
    }
    if enc.len() != l || enc.is_empty() != (l == 0) || enc.iter().count() != l || (&enc).into_iter().count() != l {
        return Err(format!("after {}: linear sequence reports len {} / is_empty {} / {} items for {} symbols", op, enc.len(), enc.is_empty(), enc.iter().count(), l));
    }
    for i in 0..l {
        if enc[i] != syms[i] || *enc.iter().nth(i).unwrap() != syms[i] {
            return Err(format!("after {}: linear sequence index {} gives {:?}, expected {:?}", op, i, enc[i], syms[i]));
        }
    }
    let slice: &[A::Symbol] = enc.as_ref();
    let by_enc = SymbolCount::<A>::count_symbols(&enc);
    let by_slice = SymbolCount::<A>::count_symbols(&slice);
    for j in 0..k {
        let one_enc = SymbolCount::<A>::count_symbol(&enc, sym::<A>(j as u8));
        let one_slice = SymbolCount::<A>::count_symbol(&slice, sym::<A>(j as u8));
        if by_enc[j] != counts[j] || by_slice[j] != counts[j] || one_enc != counts[j] || one_slice != counts[j] {
            return Err(format!(
                "after {}: linear counts of symbol {}: count_symbols {} / {} (slice), count_symbol {} / {} (slice), expected {}",
                op, j, by_enc[j], by_slice[j], one_enc, one_slice, counts[j]
            ));
        }
    }
    // equality depends on the symbols only; conversions keep them
    let from_vec: EncodedSequence<A> = syms.clone().into();
    let collected: EncodedSequence<A> = syms.iter().cloned().collect();
    if !(enc == syms && enc == from_vec && enc == collected && enc == enc.clone()) {
        return Err(format!("after {}: an encoded sequence differs from one built from the same symbols", op));
    }
    if l > 0 {
        let mut other = syms.clone();
        let j = l / 2;
        other[j] = sym::<A>(((s[j] as usize + 1) % k) as u8);
        if enc == other || enc == syms[..l - 1].to_vec() || enc == EncodedSequence::<A>::default() {
            return Err(format!("after {}: an encoded sequence compares equal to a different one", op));
        }
    } else if !(enc == EncodedSequence::<A>::default()) {
        return Err(format!("after {}: the empty sequence differs from the default one", op));
    }
    // From<StripedSequence> for DenseMatrix (From<EncodedSequence> for StripedSequence is one of the 32-column stripers)
    let striped: StripedSequence<A, C> = stripe_generic(&enc);
    if striped.len() != l || striped.wrap() != 0 {
        return Err(format!("after {}: stripe(encoded) has len {} wrap {}", op, striped.len(), striped.wrap()));
    }
    for i in 0..l {
        if striped[i] != syms[i] {
            return Err(format!("after {}: stripe(encoded)[{}] = {:?}, expected {:?}", op, i, striped[i], syms[i]));
        }
    }
    let r = (l + C::USIZE - 1) / C::USIZE;
    let dm: lightmotif::dense::DenseMatrix<A::Symbol, C> = striped.clone().into();
    if dm.rows() != r {
        return Err(format!("after {}: DenseMatrix::from(striped) has {} rows, expected {}", op, dm.rows(), r));
    }
    for i in 0..l {
        if dm[i % r][i / r] != syms[i] {
            return Err(format!("after {}: DenseMatrix::from(striped) cell of symbol {} holds {:?}", op, i, dm[i % r][i / r]));
        }
    }
    // StripedSequence::new over that matrix: accepted with the true length, rejected beyond capacity
    match StripedSequence::<A, C>::new(dm.clone(), l) {
        Ok(again) => {
            for i in 0..l {
                if again[i] != syms[i] {
                    return Err(format!("after {}: StripedSequence::new(matrix, L)[{}] = {:?}", op, i, again[i]));
                }
            }
        }
        Err(_) => return Err(format!("after {}: StripedSequence::new rejected its own matrix with length {}", op, l)),
    }
    if StripedSequence::<A, C>::new(dm, r * C::USIZE + 1).is_ok() {
        return Err(format!("after {}: StripedSequence::new accepted a length above rows x columns", op));
    }
    // a hand-built sequence over a taller matrix: the stripe height is the matrix row count
    for extra in [1usize, 3] {
        let tall: StripedSequence<A, C> = stripe_tall(s, extra);
        if tall.len() != l || tall.wrap() != 0 || tall.matrix().rows() != r + extra {
            return Err(format!("after {}: hand-built sequence over {} rows reports len {} wrap {} rows {}", op, r + extra, tall.len(), tall.wrap(), tall.matrix().rows()));
        }
        for i in 0..l {
            if tall[i] != syms[i] {
                return Err(format!("after {}: hand-built sequence over {} rows (needs {}): [{}] = {:?}, expected {:?}", op, r + extra, r, i, tall[i], syms[i]));
            }
        }
        for j in 0..k {
            let n = SymbolCount::<A>::count_symbol(&tall, sym::<A>(j as u8));
            // the padding cells of the last column hold the wildcard and are not symbols of the sequence
            if n != counts[j] {
                return Err(format!("after {}: hand-built sequence over {} rows: count_symbol({}) = {}, linear count {}", op, r + extra, j, n, counts[j]));
            }
        }
        let mut conf = tall.clone();
        conf.configure_wrap(2);
        for i in 0..l {
            if conf[i] != syms[i] {
                return Err(format!("after {}: hand-built sequence over {} rows, configured: [{}] = {:?}, expected {:?}", op, r + extra, i, conf[i], syms[i]));
            }
        }
    }
    Ok(())
}

fn random_seq(rng: &mut Rng, k: usize, l: usize) -> Vec<u8> {
    match rng.below(8) {
        // low-complexity content: a homopolymer, long runs of one symbol (assembly gaps are runs of
        // the wildcard), so that a column holds the same symbol over hundreds of rows
        0 => {
            let x = if rng.chance(0.4) { (k - 1) as u8 } else { rng.below(k - 1) as u8 };
            vec![x; l]
        }
        1 => {
            let mut v = Vec::with_capacity(l);
            while v.len() < l {
                let x = if rng.chance(0.3) { (k - 1) as u8 } else { rng.below(k - 1) as u8 };
                let run = rng.range(1, 700).min(l - v.len());
                v.extend(std::iter::repeat(x).take(run));
            }
            v
        }
        // non periodic content; wildcards are rare but present
        _ => (0..l).map(|_| if rng.chance(0.02) { (k - 1) as u8 } else { rng.below(k - 1) as u8 }).collect(),
    }
}

pub fn history<A: Alphabet, C: PositiveLength, S: Striper<A, C>>(
    case: u64,
    rng: &mut Rng,
    rep: &mut Report,
    alpha: &str,
    striper: &S,
    first_len: usize,
    n_ops: usize,
    max_len: usize,
) {
    let c = C::USIZE;
    let k = k_of::<A>();
    rep.eval();
    rep.cover(&format!("arm.{}.c{}", striper.name(), c));
    rep.cover(&format!("alphabet.{}", alpha));
    let mut ops: Vec<String> = Vec::new();
    let mut d = Digest::new();
    d.bytes(alpha.as_bytes()).u(c as u64).bytes(striper.name().as_bytes());

    let mut s = random_seq(rng, k, first_len);
    let mut wrap = 0usize;
    let mut had_nonempty = !s.is_empty();
    let mut had_wrap = false;
    let is_avx = striper.name().contains("avx2") || striper.name().contains("auto") || striper.name() == "to_striped";
    let note_block = |rep: &mut Report, l: usize| {
        let r = (l + 31) / 32;
        if c == 32 && is_avx && r >= 32 && 31 * r + 32 <= l {
            rep.cover("class.avx2_transpose_block");
        }
    };

    let fail = |rep: &mut Report, ops: &Vec<String>, msg: String, kind: &str| {
        rep.violate(
            kind,
            case,
            msg,
            J::obj()
                .set("alphabet", J::s(alpha))
                .set("columns", J::u(c))
                .set("arm", J::s(striper.name()))
                .set("history", J::Arr(ops.iter().map(|o| J::s(o.clone())).collect())),
        );
    };

    let enc = encoded::<A>(&s);
    ops.push(format!("stripe(L={})", s.len()));
    rep.cover("op.stripe");
    note_block(rep, s.len());
    let mut seq = match guard(|| striper.stripe(&enc)) {
        Ok(x) => x,
        Err(p) => {
            unforce();
            fail(rep, &ops, format!("panic in stripe: {}", p), &format!("c04.panic:{}", panic_site(&p)));
            return;
        }
    };
    if let Err(e) = check_state(&seq, &s, wrap, &ops[0]) {
        fail(rep, &ops, e, "c04.cells");
        return;
    }

    for _ in 0..n_ops {
        let rows = (s.len() + c - 1) / c;
        let choice = rng.below(10);
        let res = guard(|| {
            match choice {
                0 | 1 | 2 => {
                    // reuse the buffer for another sequence
                    let l2 = match rng.below(6) {
                        0 => 0,
                        1 => rng.below(s.len().max(1)),
                        2 => s.len() + rng.range(1, 70),
                        3 => s.len(),
                        _ => rng.below(max_len + 1),
                    };
                    if l2 < s.len() && l2 > 0 {
                        rep.cover("class.reuse_longer_for_shorter");
                    }
                    if l2 == 0 && !s.is_empty() {
                        rep.cover("class.reuse_for_empty");
                    }
                    s = random_seq(rng, k, l2);
                    had_nonempty |= l2 > 0;
                    let enc = encoded::<A>(&s);
                    ops.push(format!("stripe_into(L={})", l2));
                    rep.cover("op.stripe_into");
                    note_block(rep, l2);
                    striper.stripe_into(&enc, &mut seq);
                    wrap = 0;
                }
                3 | 4 | 5 | 6 => {
                    let m = match rng.below(8) {
                        0 => 0,
                        1 => wrap,
                        2 => wrap + 1,
                        3 => wrap + rng.range(1, 40),
                        4 => rows + rng.range(0, 3),
                        5 => rng.range(33, 70),
                        _ => rng.below(20),
                    };
                    if m > wrap && wrap > 0 {
                        rep.cover("class.second_larger_wrap");
                    }
                    if m > rows {
                        rep.cover("class.wrap>rows");
                    }
                    if m > 32 {
                        rep.cover("class.wrap>32");
                    }
                    ops.push(format!("configure_wrap({})", m));
                    rep.cover("op.configure_wrap");
                    seq.configure_wrap(m);
                    wrap = wrap.max(m);
                    had_wrap |= m > 0;
                }
                7 | 8 => {
                    let w = rng.below(45);
                    let pssm = scoring::<A>(&vec![vec![0.5f32; k]; w]);
                    ops.push(format!("configure(pssm of width {})", w));
                    rep.cover("op.configure");
                    seq.configure(&pssm);
                    if w > 0 {
                        wrap = wrap.max(w - 1);
                        had_wrap |= w > 1;
                    }
                }
                _ => {
                    ops.push("clone, continue on the clone".to_string());
                    rep.cover("op.clone");
                    let cl = seq.clone();
                    seq = cl;
                }
            }
        });
        unforce();
        let last = ops.last().cloned().unwrap_or_default();
        d.bytes(last.as_bytes());
        if let Err(p) = res {
            fail(rep, &ops, format!("panic during {}: {}", last, p), &format!("c04.panic:{}", panic_site(&p)));
            return;
        }
        match guard(|| check_state(&seq, &s, wrap, &last)) {
            Err(p) => {
                fail(rep, &ops, format!("panic while reading back after {}: {}", last, p), &format!("c04.panic:{}", panic_site(&p)));
                return;
            }
            Ok(Err(e)) => {
                fail(rep, &ops, e, "c04.cells");
                return;
            }
            Ok(Ok(())) => {}
        }
    }
    if had_nonempty && had_wrap {
        rep.nontrivial(d.get());
    }
    rep.sample(|| {
        J::obj()
            .set("case", J::UInt(case))
            .set("alphabet", J::s(alpha))
            .set("columns", J::u(c))
            .set("arm", J::s(striper.name()))
            .set("history", J::Arr(ops.iter().map(|o| J::s(o.clone())).collect()))
    });
}

fn boundary32(cfg: &Config) -> Vec<usize> {
    let mut v = boundary_lengths(0, cfg.thorough());
    // every residue mod 32 where the AVX2 transpose block is entered (R = 64 and R = 100)
    v.extend(2017..=2048);
    v.extend(3169..=3200);
    v.extend([1249, 1272, 1273, 1279, 1280]);
    if cfg.thorough() {
        v.extend(993..=1056);
    }
    v.sort();
    v.dedup();
    v
}

const STRIPERS32: [(Arm, bool); 7] = [
    (Arm::Generic, false),
    (Arm::Avx2, false),
    (Arm::DispGeneric, false),
    (Arm::DispSse2, false),
    (Arm::DispAvx2, false),
    (Arm::DispAuto, false),
    (Arm::DispAuto, true),
];

fn one<A: Alphabet>(case: u64, rng: &mut Rng, rep: &mut Report, alpha: &str, cfg: &Config, idx: u64) {
    let b32 = boundary32(cfg);
    let nb = (b32.len() * STRIPERS32.len()) as u64;
    let max_len = if cfg.thorough() { 9000 } else { 3300 };
    if idx < nb {
        let l = b32[(idx as usize) / STRIPERS32.len()];
        let (arm, via) = STRIPERS32[(idx as usize) % STRIPERS32.len()];
        // to_striped under every forced arm in turn
        let arm = if via { DISP_ARMS[(idx as usize / STRIPERS32.len()) % 4] } else { arm };
        history::<A, U32, _>(case, rng, rep, alpha, &Arm32 { arm, via_to_striped: via }, l, 5, max_len);
        return;
    }
    // random histories
    let l = match rng.below(20) {
        0..=3 => rng.below(80),
        4..=7 => *rng.pick(&b32),
        // a few long sequences in every tier: 256 and more rows of 32 columns
        8 => rng.range(8161, 9300),
        _ => rng.below(max_len + 1),
    };
    if l >= 8161 {
        rep.cover("class.rows>=256");
    }
    match rng.below(11) {
        0 => history::<A, U1, _>(case, rng, rep, alpha, &GenericStriper, l.min(300), 6, 300),
        1 => history::<A, U2, _>(case, rng, rep, alpha, &GenericStriper, l.min(600), 6, 600),
        2 => history::<A, U4, _>(case, rng, rep, alpha, &GenericStriper, l.min(1200), 6, 1200),
        3 => history::<A, U16, _>(case, rng, rep, alpha, &GenericStriper, l, 6, max_len),
        j => {
            let (arm, via) = STRIPERS32[(j as usize - 4) % STRIPERS32.len()];
            let arm = if via { *rng.pick(&DISP_ARMS) } else { arm };
            history::<A, U32, _>(case, rng, rep, alpha, &Arm32 { arm, via_to_striped: via }, l, 7, max_len)
        }
    }
}

pub fn run(cfg: &Config) -> Report {
    let nb = (boundary32(cfg).len() * STRIPERS32.len()) as u64;
    let n = 2 * (nb + cfg.n(1500, 60_000) as u64);
    run_cases(cfg, n, |case, rng, rep| {
        if case % 2 == 0 {
            one::<Dna>(case, rng, rep, "dna", cfg, case / 2);
        } else {
            one::<Protein>(case, rng, rep, "protein", cfg, case / 2);
        }
    })
}
