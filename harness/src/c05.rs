//! C05 - encoding accepts exactly the alphabet and is identical on every backend.
use std::str::FromStr;

use lightmotif::abc::{Alphabet, Dna, Protein, Symbol};
use lightmotif::err::InvalidSymbol;
use lightmotif::pli::{Encode, Pipeline};
use lightmotif::seq::EncodedSequence;

use crate::common::*;
use crate::json::J;
use crate::model::*;
use crate::rng::Rng;

pub const RULE: &str = "case = (alphabet, length). For every length in {0..70, 95..97, 127..129} (thorough: + {255,256,257,1023,1024,1025}) a valid random text gets EACH of the 256 byte values at each position (all positions for L <= 70; first/last vector block, every lane and the scalar tail otherwise): exhaustive single-fault sweep over (length class x position x byte). Plus multi-fault texts (two to five offenders in different blocks / lanes / tail), lower-case, other-alphabet letters. Each text goes through encode_raw / encode / encode_into of generic, sse2, avx2, dispatch (forced to each arm and unforced), EncodedSequence::encode and from_str; outcome compared with a table model (ok iff all bytes in the alphabet; symbols; round trip; first offending byte). Non-trivial = non-empty text; distinct = distinct (alphabet, text).";

pub const REQUIRED: &[&str] = &[
    "arm.generic.dna", "arm.sse2.dna", "arm.avx2.dna", "arm.dispatch[generic].dna", "arm.dispatch[sse2].dna",
    "arm.dispatch[avx2].dna", "arm.dispatch[auto].dna", "arm.generic.protein", "arm.sse2.protein", "arm.avx2.protein",
    "arm.dispatch[generic].protein", "arm.dispatch[sse2].protein", "arm.dispatch[avx2].protein",
    "arm.dispatch[auto].protein", "arm.EncodedSequence::encode.dna", "arm.EncodedSequence::encode.protein",
    "outcome.ok", "outcome.err", "class.multi_fault", "class.fault_in_vector_body", "class.fault_in_tail",
    "dispatch_forced.generic", "dispatch_forced.sse2", "dispatch_forced.avx2",
];

fn lengths(cfg: &Config) -> Vec<usize> {
    let mut v: Vec<usize> = (0..=70).collect();
    v.extend([95, 96, 97, 127, 128, 129, 255, 256, 257, 258, 600]);
    if cfg.thorough() {
        v.extend([511, 512, 513, 1023, 1024, 1025, 4099]);
    }
    v
}

/// model: Ok(()) or the first offending byte
fn model<A: Alphabet>(text: &[u8]) -> Result<(), u8> {
    let alpha = A::as_str().as_bytes();
    for &b in text {
        if !alpha.contains(&b) {
            return Err(b);
        }
    }
    Ok(())
}

const ARM_NAMES: [&str; 8] = [
    "generic", "sse2", "avx2", "dispatch[generic]", "dispatch[sse2]", "dispatch[avx2]", "dispatch[auto]",
    "EncodedSequence::encode",
];

fn encode_arm<A: Alphabet>(arm: usize, text: &[u8], variant: usize) -> Result<Vec<A::Symbol>, InvalidSymbol> {
    // variant 0: encode_raw, 1: encode (EncodedSequence), 2: encode_into an exact-size buffer
    macro_rules! go {
        ($p:expr) => {{
            let p = $p;
            match variant {
                0 => p.encode_raw(text),
                1 => p.encode(text).map(|e| {
                    let s: &[A::Symbol] = e.as_ref();
                    s.to_vec()
                }),
                _ => {
                    // a caller-owned destination left over from another text (not the default
                    // symbol): a successful encode_into has written every one of its cells
                    let stale = A::symbols()[0];
                    let mut dst = vec![stale; text.len()];
                    p.encode_into(text, &mut dst).map(|_| dst)
                }
            }
        }};
    }
    match arm {
        0 => go!(Pipeline::<A, _>::generic()),
        1 => go!(Pipeline::<A, _>::sse2().unwrap()),
        2 => go!(Pipeline::<A, _>::avx2().unwrap()),
        3 | 4 | 5 | 6 => {
            let a = [Arm::DispGeneric, Arm::DispSse2, Arm::DispAvx2, Arm::DispAuto][arm - 3];
            let p = dispatch_pipeline::<A>(a);
            unforce();
            go!(p)
        }
        _ => {
            // EncodedSequence::encode goes through dispatch(): drive it through a forced arm too
            let a = [Arm::DispGeneric, Arm::DispSse2, Arm::DispAvx2, Arm::DispAuto][variant % 4];
            force(a);
            let r = EncodedSequence::<A>::encode(text).map(|e| {
                let s: &[A::Symbol] = e.as_ref();
                s.to_vec()
            });
            unforce();
            r
        }
    }
}

fn check_text<A: Alphabet>(case: u64, rep: &mut Report, alpha: &str, text: &[u8], variant: usize, note: &str) {
    let expect = model::<A>(text);
    rep.eval();
    if !text.is_empty() {
        let mut d = Digest::new();
        d.bytes(alpha.as_bytes()).bytes(text);
        rep.nontrivial(d.get());
    }
    match expect {
        Ok(()) => rep.cover("outcome.ok"),
        Err(_) => rep.cover("outcome.err"),
    }
    // half of the short texts (and one longer text in eight) are handed over as a sub-slice that
    // starts 1..31 bytes after a 32-byte boundary, as `&buf[k..k + n]` of a caller's buffer does
    let shift = if (text.len() <= 40 && (text.len() + variant) % 2 == 0) || (text.len() + variant) % 8 == 3 { 1 + (text.len() * 7 + variant * 3) % 31 } else { 0 };
    let mut shifted: Vec<u8> = Vec::new();
    let text: &[u8] = if shift > 0 {
        shifted.resize(text.len() + 64, b'A');
        let base = shifted.as_ptr() as usize;
        let k = (32 - base % 32) % 32 + shift;
        shifted[k..k + text.len()].copy_from_slice(text);
        rep.cover("class.source_not_on_vector_boundary");
        &shifted[k..k + text.len()]
    } else {
        text
    };
    for arm in 0..ARM_NAMES.len() {
        let got = guard(|| encode_arm::<A>(arm, text, variant));
        unforce();
        rep.cover_n(&format!("arm.{}.{}", ARM_NAMES[arm], alpha), 1);
        let wit = || {
            J::obj()
                .set("alphabet", J::s(alpha))
                .set("arm", J::s(ARM_NAMES[arm]))
                .set("variant", J::s(["encode_raw", "encode", "encode_into"][variant % 3]))
                .set("length", J::u(text.len()))
                .set("source_offset_from_32_byte_boundary", J::u(shift))
                .set("text_bytes", J::Arr(text.iter().map(|&b| J::u(b as usize)).collect()))
                .set("note", J::s(note))
        };
        match (got, expect) {
            (Err(p), _) => rep.violate(
                &format!("c05.panic:{}", panic_site(&p)),
                case,
                format!("panic while encoding: {}", p),
                wit(),
            ),
            (Ok(Ok(syms)), Ok(())) => {
                let ok = syms.len() == text.len() && syms.iter().zip(text).all(|(s, &b)| s.as_ascii() == b);
                if !ok {
                    rep.violate(
                        "c05.symbols",
                        case,
                        format!(
                            "{}: valid text encoded to the wrong symbols: {:?}",
                            ARM_NAMES[arm],
                            syms.iter().map(|s| s.as_char()).collect::<String>()
                        ),
                        wit(),
                    );
                } else {
                    let shown = EncodedSequence::<A>::new(syms).to_string();
                    if shown.as_bytes() != text {
                        rep.violate("c05.roundtrip", case, format!("display gives {:?}", shown), wit());
                    }
                }
            }
            (Ok(Ok(syms)), Err(b)) => rep.violate(
                "c05.accepts_invalid",
                case,
                format!(
                    "{}: text containing byte {:#04x} was accepted (encoded as {:?})",
                    ARM_NAMES[arm],
                    b,
                    syms.iter().map(|s| s.as_char()).collect::<String>()
                ),
                wit(),
            ),
            (Ok(Err(e)), Ok(())) => rep.violate(
                "c05.rejects_valid",
                case,
                format!("{}: valid text rejected with {:?}", ARM_NAMES[arm], e.0),
                wit(),
            ),
            (Ok(Err(e)), Err(b)) => {
                if e.0 != b as char {
                    rep.violate(
                        "c05.wrong_offender",
                        case,
                        format!(
                            "{}: reported offending character {:?}, the first offending byte is {:#04x} ({:?})",
                            ARM_NAMES[arm], e.0, b, b as char
                        ),
                        wit(),
                    );
                }
            }
        }
    }
    // from_str only takes valid UTF-8
    if let Ok(s) = std::str::from_utf8(text) {
        let got = guard(|| EncodedSequence::<A>::from_str(s));
        match (got, expect) {
            (Err(p), _) => rep.violate(&format!("c05.panic:{}", panic_site(&p)), case, format!("panic in from_str: {}", p), J::s(s)),
            (Ok(Ok(e)), Ok(())) => {
                if e.to_string() != s {
                    rep.violate("c05.roundtrip", case, format!("from_str/to_string gives {:?}", e.to_string()), J::s(s));
                }
            }
            (Ok(Ok(_)), Err(b)) => rep.violate("c05.accepts_invalid", case, format!("from_str accepted byte {:#04x}", b), J::s(s)),
            (Ok(Err(e)), Ok(())) => rep.violate("c05.rejects_valid", case, format!("from_str rejected valid text with {:?}", e.0), J::s(s)),
            (Ok(Err(e)), Err(b)) => {
                if e.0 != b as char {
                    rep.violate("c05.wrong_offender", case, format!("from_str reported {:?}, first offender is {:?}", e.0, b as char), J::s(s));
                }
            }
        }
    }
}

fn positions(l: usize) -> Vec<usize> {
    if l <= 70 {
        return (0..l).collect();
    }
    let mut v: Vec<usize> = (0..34.min(l)).collect();
    v.extend(l.saturating_sub(35)..l);
    v.extend([l / 2, l / 2 + 1, l / 2 + 15, l / 2 + 16, l / 2 + 17]);
    v.retain(|&p| p < l);
    v.sort();
    v.dedup();
    v
}

fn run_len<A: Alphabet>(case: u64, rng: &mut Rng, rep: &mut Report, alpha: &str, l: usize, cfg: &Config) {
    let letters = A::as_str().as_bytes();
    let base: Vec<u8> = (0..l).map(|_| *rng.pick(letters)).collect();
    // valid text itself, all three API variants
    for v in 0..3 {
        check_text::<A>(case, rep, alpha, &base, v, "valid");
    }
    // single-fault sweep
    let mut text = base.clone();
    for &p in positions(l).iter() {
        if p + 32 <= l - l % 32 || (p + 16 < l) {
            rep.cover("class.fault_in_vector_body");
        }
        if p >= l - l % 32 {
            rep.cover("class.fault_in_tail");
        }
        for b in 0..=255u8 {
            text[p] = b;
            check_text::<A>(case, rep, alpha, &text, (p + b as usize) % 3, "single fault");
        }
        text[p] = base[p];
    }
    // runs of one byte over whole vector blocks (valid: the wildcard letter, a regular letter;
    // invalid: NUL, 0xFF, space), starting at block-aligned offsets and at offset 1
    if l >= 16 {
        let wild = *letters.last().unwrap();
        for &b in [0u8, 0xFF, b' ', wild, letters[0]].iter() {
            for &start in [0usize, 1, 16, 32].iter() {
                for &len in [16usize, 32, 48, l].iter() {
                    if start >= l {
                        continue;
                    }
                    let end = (start + len).min(l);
                    let mut t = base.clone();
                    for x in t[start..end].iter_mut() {
                        *x = b;
                    }
                    rep.cover("class.run_of_one_byte");
                    check_text::<A>(case, rep, alpha, &t, (start + len) % 3, "run of one byte");
                }
            }
        }
    }
    // multi-fault texts
    if l >= 2 {
        let invalid: Vec<u8> = (0..=255u8).filter(|b| !letters.contains(b)).collect();
        let n = cfg.n(40, 400);
        for i in 0..n {
            let mut t = base.clone();
            let nf = rng.range(2, 5.min(l));
            let mut ps: Vec<usize> = Vec::new();
            // force offenders into different regions: one early, one late
            ps.push(rng.below((l / 2).max(1)));
            ps.push(l - 1 - rng.below((l % 32).max(1).min(l)));
            while ps.len() < nf {
                ps.push(rng.below(l));
            }
            for &p in &ps {
                t[p] = *rng.pick(&invalid);
            }
            rep.cover("class.multi_fault");
            check_text::<A>(case, rep, alpha, &t, i % 3, "multi fault");
        }
        // lower-case version and letters of the other alphabet
        let lower: Vec<u8> = base.iter().map(|b| b.to_ascii_lowercase()).collect();
        check_text::<A>(case, rep, alpha, &lower, 0, "lower case");
        let other = b"ACDEFGHIKLMNPQRSTVWYXBJOUZ";
        let t: Vec<u8> = (0..l).map(|_| *rng.pick(other)).collect();
        check_text::<A>(case, rep, alpha, &t, 1, "other alphabet letters");
    }
    rep.sample(|| {
        J::obj()
            .set("case", J::UInt(case))
            .set("alphabet", J::s(alpha))
            .set("length", J::u(l))
            .set("base_text", J::s(String::from_utf8_lossy(&base).to_string()))
            .set("positions_swept", J::u(positions(l).len()))
            .set("byte_values_per_position", J::u(256))
    });
}

pub fn run(cfg: &Config) -> Report {
    let ls = lengths(cfg);
    let n = (ls.len() * 3) as u64;
    run_cases(cfg, n, |case, rng, rep| {
        let l = ls[(case / 3) as usize];
        match case % 3 {
            0 => run_len::<Dna>(case, rng, rep, "dna", l, cfg),
            1 => run_len::<Protein>(case, rng, rep, "protein", l, cfg),
            // five regular symbols + wildcard (public traits): K = 6 is neither 4n nor 4n + 1
            _ => run_len::<crate::model::Abc6>(case, rng, rep, "user_defined_6", l, cfg),
        }
    })
}
