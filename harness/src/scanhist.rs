//! Scanner reconfiguration histories (shared by C02, C03 and C08).
//!
//! One `Scanner` is driven through a scripted history of `next()` calls interleaved with the
//! public setters `threshold()` and `block_size()`, and finished either by iterating to
//! exhaustion or by `max()`. The `verif-hooks` row log (the row ranges handed to the dispatched
//! 8-bit kernel, recorded at the pipeline boundary) tells which rows had been scored when each
//! setter was called, so the oracle does not have to guess how lazily the scanner works:
//!
//!   * a block scored during a `next()` call is filtered with the threshold in effect at that call;
//!   * hits found by a call and not yet handed out stay buffered and are handed out by later calls;
//!   * `max()` considers the buffered hits that still meet the current threshold and every row
//!     not yet scored, under the current threshold.
//!
//! With a constant threshold this degenerates to C02 / C03 exactly (block-size changes must not
//! change the result at all).
use std::collections::HashSet;

use lightmotif::pli::dispatch::verif_trace_rows;
use lightmotif::pli::dispatch::verif_traced_rows;
use lightmotif::scan::Scanner;

use crate::c02::*;
use crate::common::*;
use crate::json::J;
use crate::model::*;
use crate::rng::Rng;

#[derive(Clone, Copy, Debug, PartialEq)]
pub enum Op {
    Next,
    Threshold(f32),
    Block(usize),
}

#[derive(Clone, Copy, Debug, PartialEq)]
pub enum Finish {
    Exhaust,
    Max,
    /// the rest is consumed by internal iteration (`for_each`, which goes through `Iterator::fold`)
    ForEach,
}

pub struct History {
    /// hand the scanner a caller-owned score buffer (Scanner::scores) before iterating
    pub ext_buffer: bool,
    pub t0: f32,
    pub b0: usize,
    pub ops: Vec<Op>,
    pub finish: Finish,
}

pub struct Outcome {
    /// (position, score, index of the next() call that returned it)
    pub yielded: Vec<(usize, f32)>,
    /// (first row, end row, threshold in effect) for every block scored, in order
    pub events: Vec<(usize, usize, f32)>,
    /// number of events logged before max() was called
    pub events_before_max: usize,
    pub max_result: Option<Option<(usize, f32)>>,
    pub final_threshold: f32,
    pub thresholds: Vec<f32>,
    pub exhausted: bool,
    pub overrun: bool,
    pub threshold_changed_after_scoring: bool,
    pub block_changed_after_scoring: bool,
}

pub struct Finding {
    pub suffix: &'static str,
    pub msg: String,
    pub wraps: bool,
}

/// thresholds that make setter histories interesting: relative to the scores present
fn pick_hist_threshold(rng: &mut Rng, inp: &ScanInput, rep: &mut Report) -> f32 {
    let mut finite: Vec<f64> = inp.exact.iter().map(|e| e.0).filter(|x| x.is_finite()).collect();
    if finite.len() < 4 || rng.chance(0.35) {
        return pick_threshold(rng, inp, rep);
    }
    finite.sort_by(|a, b| b.partial_cmp(a).unwrap());
    // a quantile among the best positions, nudged below the score so that the position qualifies
    let q = match rng.below(4) {
        0 => rng.below(3.min(finite.len())),
        1 => rng.below((finite.len() / 20).max(1)),
        2 => rng.below((finite.len() / 4).max(1)),
        _ => rng.below(finite.len()),
    };
    (finite[q] - 1e-3) as f32
}

pub fn gen_history(rng: &mut Rng, inp: &ScanInput, rep: &mut Report, finish: Finish) -> History {
    let small_blocks = [1usize, 2, 3, 5, 8, 16, 31, 32, 33];
    let b0 = if rng.chance(0.7) { *rng.pick(&small_blocks) } else { pick_block(rng, inp.r_rows, inp.m) };
    let t0 = pick_hist_threshold(rng, inp, rep);
    let n_ops = rng.range(1, 14);
    let mut ops = Vec::new();
    for _ in 0..n_ops {
        match rng.below(8) {
            0 | 1 => ops.push(Op::Threshold(pick_hist_threshold(rng, inp, rep))),
            2 => ops.push(Op::Block(if rng.chance(0.7) { *rng.pick(&small_blocks) } else { pick_block(rng, inp.r_rows, inp.m) })),
            _ => {
                for _ in 0..rng.range(1, 3) {
                    ops.push(Op::Next);
                }
            }
        }
    }
    History { ext_buffer: rng.chance(0.3), t0, b0, ops, finish }
}

pub fn run_history(inp: &ScanInput, arm: Arm, h: &History) -> Result<Outcome, String> {
    let limit = inp.l + 2;
    let mut ext = lightmotif::scores::StripedScores::<f32, lightmotif::num::U32>::empty();
    if h.ext_buffer {
        // left over from another use: wrong size, poisoned contents
        ext.resize(3, 7);
        ext.matrix_mut().fill(f32::NAN);
    }
    let res = guard(|| {
        force(arm);
        let mut sc = Scanner::new(&inp.pssm, &inp.striped);
        unforce();
        if h.ext_buffer {
            sc.scores(&mut ext);
        }
        sc.threshold(h.t0);
        sc.block_size(h.b0);
        verif_trace_rows(true);
        let mut out = Outcome {
            yielded: Vec::new(),
            events: Vec::new(),
            events_before_max: 0,
            max_result: None,
            final_threshold: h.t0,
            thresholds: vec![h.t0],
            exhausted: false,
            overrun: false,
            threshold_changed_after_scoring: false,
            block_changed_after_scoring: false,
        };
        let mut t = h.t0;
        let mut b = h.b0;
        let mut logged = 0usize;
        let call_next = |sc: &mut Scanner<'_, _, _, _, _>, out: &mut Outcome, t: f32, logged: &mut usize| -> bool {
            let r = sc.next();
            let log = verif_traced_rows();
            for e in &log[*logged..] {
                out.events.push((e.0, e.1, t));
            }
            *logged = log.len();
            match r {
                Some(hit) => {
                    out.yielded.push((hit.position(), hit.score()));
                    true
                }
                None => false,
            }
        };
        for op in h.ops.iter() {
            match *op {
                Op::Next => {
                    if !call_next(&mut sc, &mut out, t, &mut logged) {
                        out.exhausted = true;
                    }
                }
                Op::Threshold(nt) => {
                    if nt.to_bits() != t.to_bits() && !out.events.is_empty() {
                        out.threshold_changed_after_scoring = true;
                    }
                    t = nt;
                    out.thresholds.push(nt);
                    sc.threshold(nt);
                }
                Op::Block(nb) => {
                    if nb != b && !out.events.is_empty() {
                        out.block_changed_after_scoring = true;
                    }
                    b = nb;
                    sc.block_size(nb);
                }
            }
            if out.yielded.len() > limit {
                out.overrun = true;
                break;
            }
        }
        out.final_threshold = t;
        if !out.overrun {
            match h.finish {
                Finish::Exhaust => {
                    loop {
                        if !call_next(&mut sc, &mut out, t, &mut logged) {
                            out.exhausted = true;
                            break;
                        }
                        if out.yielded.len() > limit {
                            out.overrun = true;
                            break;
                        }
                    }
                }
                Finish::ForEach => {
                    let mut rest: Vec<(usize, f32)> = Vec::new();
                    let cap = limit + 1;
                    sc.for_each(|hit| {
                        if rest.len() <= cap {
                            rest.push((hit.position(), hit.score()));
                        }
                    });
                    let log = verif_traced_rows();
                    for e in &log[logged..] {
                        out.events.push((e.0, e.1, t));
                    }
                    out.yielded.extend(rest);
                    out.exhausted = true;
                    if out.yielded.len() > limit {
                        out.overrun = true;
                    }
                }
                Finish::Max => {
                    out.events_before_max = out.events.len();
                    let best = sc.max().map(|x| (x.position(), x.score()));
                    let log = verif_traced_rows();
                    for e in &log[logged..] {
                        out.events.push((e.0, e.1, t));
                    }
                    out.max_result = Some(best);
                }
            }
        }
        out
    });
    verif_trace_rows(false);
    unforce();
    res
}

/// the threshold under which each row was scored before `upto` events (None = not scored yet);
/// the last event covering the row wins (rows are never scored twice by a correct scanner, and
/// when they are the later result can only add hits)
fn row_thresholds(inp: &ScanInput, events: &[(usize, usize, f32)]) -> Vec<Vec<f32>> {
    let mut v: Vec<Vec<f32>> = vec![Vec::new(); inp.r_rows];
    for &(a, b, t) in events {
        for r in a..b.min(inp.r_rows) {
            v[r].push(t);
        }
    }
    v
}

pub fn judge(inp: &ScanInput, arm: Arm, h: &History, o: &Outcome) -> Vec<Finding> {
    let mut f = Vec::new();
    let nvalid = inp.exact.len();
    let generic = generic_family(arm);
    if o.overrun {
        f.push(Finding { suffix: "too_many_hits", msg: format!("more than L+2 = {} hits yielded", inp.l + 2), wraps: false });
        return f;
    }
    // rows handed to the kernel must be sequence rows
    for &(a, b, _) in o.events.iter() {
        if a > b || b > inp.r_rows {
            f.push(Finding { suffix: "rows_out_of_range", msg: format!("the scanner scored rows {}..{} of a sequence with {} sequence rows", a, b, inp.r_rows), wraps: false });
            return f;
        }
    }
    let before = if h.finish == Finish::Max { &o.events[..o.events_before_max] } else { &o.events[..] };
    let rows = row_thresholds(inp, before);
    let disjoint = rows.iter().all(|v| v.len() <= 1);
    let row_of = |p: usize| if inp.r_rows == 0 { 0 } else { p % inp.r_rows };
    // --- every yielded hit is a valid position, with its exact score, found under a threshold it meets
    let mut seen: HashSet<usize> = HashSet::new();
    for &(p, s) in o.yielded.iter() {
        if p >= nvalid {
            f.push(Finding { suffix: "out_of_range", msg: format!("position {} yielded, last valid position is {:?}", p, nvalid.checked_sub(1)), wraps: false });
            return f;
        }
        if !seen.insert(p) && disjoint {
            f.push(Finding { suffix: "duplicate", msg: format!("position {} yielded twice although no row was scored twice", p), wraps: false });
            return f;
        }
        if !disjoint && o.yielded.iter().filter(|y| y.0 == p).count() > rows[row_of(p)].len() {
            f.push(Finding { suffix: "duplicate", msg: format!("position {} yielded more often than its row was scored", p), wraps: false });
            return f;
        }
        let (ex, _) = inp.exact[p];
        let tl = inp.tol(p);
        let score_ok = if ex == f64::NEG_INFINITY { s == f32::NEG_INFINITY } else { ((s as f64) - ex).abs() <= tl.max(1e-30) || (inp.exact_sums && s as f64 == ex) };
        if !score_ok {
            f.push(Finding { suffix: "wrong_score", msg: format!("position {} yielded with score {}, exact score {}", p, s, ex), wraps: false });
            return f;
        }
        let ok = rows[row_of(p)].iter().any(|&t| ex >= t as f64 - tl);
        if !ok {
            f.push(Finding {
                suffix: "below_threshold",
                msg: format!("position {} (score {}) yielded although its row {} was scored under threshold(s) {:?}", p, ex, row_of(p), rows[row_of(p)]),
                wraps: false,
            });
            return f;
        }
    }
    // --- constant threshold: the row log must not matter at all (block-size changes are invisible)
    let constant_t = o.thresholds.iter().all(|t| t.to_bits() == h.t0.to_bits());
    match h.finish {
        Finish::Exhaust | Finish::ForEach => {
            if !o.exhausted {
                return f;
            }
            for i in 0..nvalid {
                let (ex, _) = inp.exact[i];
                let tl = inp.tol(i);
                // positions that every semantics must yield: they meet the largest threshold ever set ...
                let tmax = o.thresholds.iter().cloned().fold(f32::NEG_INFINITY, f32::max) as f64;
                // ... and positions found by the block scan that covered their row
                let must = ex >= tmax + tl || rows[row_of(i)].iter().any(|&t| ex >= t as f64 + tl) || (constant_t && ex >= h.t0 as f64 + tl);
                if must && !seen.contains(&i) {
                    f.push(Finding {
                        suffix: "missed_hit",
                        msg: format!(
                            "position {} (row {}) scores {} and its row was scored under threshold(s) {:?} (thresholds set: {:?}) but it was never yielded",
                            i, row_of(i), ex, rows[row_of(i)], o.thresholds
                        ),
                        wraps: generic && inp.presat[i] > 255,
                    });
                    return f;
                }
            }
        }
        Finish::Max => {
            let best = match o.max_result {
                Some(b) => b,
                None => return f,
            };
            let tn = o.final_threshold as f64;
            // candidates: buffered (found, not handed out, still meeting the threshold) + rows not scored yet
            let cand = |i: usize, slack: f64| -> bool {
                if seen.contains(&i) {
                    return false;
                }
                let (ex, _) = inp.exact[i];
                let tl = inp.tol(i) * slack;
                if ex < tn + tl {
                    return false;
                }
                let r = &rows[row_of(i)];
                r.is_empty() || r.iter().any(|&t| ex >= t as f64 + tl)
            };
            let definite: Vec<usize> = (0..nvalid).filter(|&i| cand(i, 1.0)).collect();
            let possible_any = (0..nvalid).any(|i| cand(i, -1.0));
            match best {
                None => {
                    if let Some(&bi) = definite.iter().max_by(|a, b| inp.exact[**a].0.partial_cmp(&inp.exact[**b].0).unwrap()) {
                        f.push(Finding {
                            suffix: "none_but_hit_exists",
                            msg: format!("max() returned None but position {} (row {}, scored under {:?}) scores {} >= current threshold {} and was not consumed", bi, row_of(bi), rows[row_of(bi)], inp.exact[bi].0, o.final_threshold),
                            wraps: generic && inp.presat[bi] > 255,
                        });
                    }
                }
                Some((p, s)) => {
                    if p >= nvalid {
                        f.push(Finding { suffix: "out_of_range", msg: format!("max() returned position {}", p), wraps: false });
                        return f;
                    }
                    if seen.contains(&p) && disjoint {
                        f.push(Finding { suffix: "consumed_returned", msg: format!("max() returned position {} which next() had already yielded", p), wraps: false });
                        return f;
                    }
                    let (ex, _) = inp.exact[p];
                    let tl = inp.tol(p);
                    if ex < tn - tl || !possible_any {
                        f.push(Finding {
                            suffix: "below_threshold",
                            msg: format!("max() returned position {} with score {} (exact {}), below the current threshold {} (thresholds set: {:?})", p, s, ex, o.final_threshold, o.thresholds),
                            wraps: false,
                        });
                        return f;
                    }
                    let score_ok = if ex == f64::NEG_INFINITY { s == f32::NEG_INFINITY } else { ((s as f64) - ex).abs() <= tl.max(1e-30) };
                    if !score_ok {
                        f.push(Finding { suffix: "wrong_score", msg: format!("max() returned position {} with score {}, exact {}", p, s, ex), wraps: false });
                        return f;
                    }
                    let mut worst: Option<usize> = None;
                    for &i in definite.iter() {
                        if inp.exact[i].0 - inp.tol(i) > ex + tl && worst.map_or(true, |w| inp.exact[i].0 > inp.exact[w].0) {
                            worst = Some(i);
                        }
                    }
                    if let Some(i) = worst {
                        f.push(Finding {
                            suffix: "not_maximal",
                            msg: format!("max() returned position {} scoring {} but position {} (row {}, scored under {:?}) scores {} (current threshold {}, {} hits consumed)", p, ex, i, row_of(i), rows[row_of(i)], inp.exact[i].0, o.final_threshold, o.yielded.len()),
                            wraps: generic && inp.presat[i] > 255,
                        });
                    }
                }
            }
        }
    }
    f
}

pub fn history_witness(inp: &ScanInput, arm: Arm, h: &History, o: Option<&Outcome>) -> J {
    let ops = J::Arr(
        h.ops
            .iter()
            .map(|op| match op {
                Op::Next => J::s("next"),
                Op::Threshold(t) => J::s(format!("threshold({})", t)),
                Op::Block(b) => J::s(format!("block_size({})", b)),
            })
            .collect(),
    );
    let mut w = inp.witness(arm, h.t0, h.b0).set("history", ops).set("caller_owned_score_buffer", J::Bool(h.ext_buffer)).set("finish", J::s(match h.finish { Finish::Max => "max()", Finish::ForEach => "for_each() over the rest", Finish::Exhaust => "next() until None" }));
    if let Some(o) = o {
        w = w
            .set("rows_scored", J::Arr(o.events.iter().take(40).map(|e| J::s(format!("{}..{} @t={}", e.0, e.1, e.2))).collect()))
            .set("yielded", J::Arr(o.yielded.iter().take(20).map(|y| J::Arr(vec![J::u(y.0), J::f(y.1 as f64)])).collect()));
    }
    w
}

/// Run one history and report under `<prefix>.hist.<suffix>` (or `<prefix>.generic_u8_wraps`).
pub fn history_case(case: u64, rng: &mut Rng, rep: &mut Report, inp: &ScanInput, arm: Arm, finish: Finish, prefix: &str, missed_kind: Option<&str>) {
    let h = gen_history(rng, inp, rep, finish);
    rep.eval();
    rep.cover("class.history");
    if h.ext_buffer {
        rep.cover("class.history.caller_owned_score_buffer");
    }
    if finish == Finish::ForEach {
        rep.cover("class.history.finished_by_internal_iteration");
    }
    let o = match run_history(inp, arm, &h) {
        Err(p) => {
            let wraps = generic_family(arm) && p.contains("attempt to add with overflow") && panic_site(&p).ends_with("src/pli/mod.rs");
            let kind = if wraps { format!("{}.generic_u8_wraps", prefix) } else { format!("{}.panic:{}", prefix, panic_site(&p)) };
            rep.violate(&kind, case, format!("panic in a scanner history: {}", p), history_witness(inp, arm, &h, None));
            return;
        }
        Ok(o) => o,
    };
    if o.threshold_changed_after_scoring {
        rep.cover("class.history.threshold_changed_after_blocks_scored");
        let lowered = o.thresholds.windows(2).any(|w| w[1] < w[0]);
        let raised = o.thresholds.windows(2).any(|w| w[1] > w[0]);
        if lowered {
            rep.cover("class.history.threshold_lowered");
        }
        if raised {
            rep.cover("class.history.threshold_raised");
        }
    }
    if o.block_changed_after_scoring {
        rep.cover("class.history.block_size_changed_after_blocks_scored");
    }
    if !o.events.is_empty() {
        rep.cover_n("observed.blocks_scored", o.events.len() as u64);
        let mut d = Digest::new();
        d.u(inp.digest(arm, h.t0, h.b0)).u(h.ops.len() as u64).u(o.events.len() as u64).u(o.yielded.len() as u64);
        rep.nontrivial(d.get());
    }
    if !o.yielded.is_empty() {
        rep.cover("class.history.hits_yielded");
    }
    for fd in judge(inp, arm, &h, &o) {
        let kind = if fd.wraps {
            format!("{}.generic_u8_wraps", prefix)
        } else if fd.suffix == "missed_hit" && missed_kind.is_some() {
            missed_kind.unwrap().to_string()
        } else {
            format!("{}.hist.{}", prefix, fd.suffix)
        };
        rep.violate(&kind, case, fd.msg, history_witness(inp, arm, &h, Some(&o)));
    }
}
