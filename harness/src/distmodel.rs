//! Exact score distribution of a scoring matrix under independent background-distributed symbols,
//! by enumeration of all words (shared by C11, C12, C13).
use crate::rng::Rng;

pub struct ExactDist {
    /// attainable scores (distinct, ascending) with the probability mass of each
    pub scores: Vec<f64>,
    pub mass: Vec<f64>,
    /// tail[i] = P(S >= scores[i])
    pub tail: Vec<f64>,
    pub words: u64,
}

impl ExactDist {
    /// rows: M x K cell values (f32 as stored by the library), bg: K background frequencies;
    /// symbols with zero background frequency carry no mass and are skipped.
    pub fn new(rows: &[Vec<f32>], bg: &[f32]) -> ExactDist {
        let m = rows.len();
        let k = bg.len();
        let mut acc: Vec<(f64, f64)> = vec![(0.0, 1.0)];
        let mut words: u64 = 1;
        for j in 0..m {
            let syms: Vec<usize> = (0..k).filter(|&s| bg[s] > 0.0).collect();
            let mut next = Vec::with_capacity(acc.len() * syms.len());
            for &(s, p) in acc.iter() {
                for &a in syms.iter() {
                    next.push((s + rows[j][a] as f64, p * bg[a] as f64));
                }
            }
            words = words.saturating_mul(syms.len() as u64);
            acc = next;
        }
        // words scoring -inf (a -inf cell under a symbol with non-zero frequency) are never >= a
        // finite score: they carry no tail mass and are not attainable scores
        acc.retain(|x| x.0 != f64::NEG_INFINITY);
        acc.sort_by(|a, b| a.0.partial_cmp(&b.0).unwrap());
        let mut scores = Vec::new();
        let mut mass: Vec<f64> = Vec::new();
        for (s, p) in acc {
            if let Some(&last) = scores.last() {
                if s == last {
                    *mass.last_mut().unwrap() += p;
                    continue;
                }
            }
            scores.push(s);
            mass.push(p);
        }
        let mut tail = vec![0.0; scores.len()];
        let mut t = 0.0;
        for i in (0..scores.len()).rev() {
            t += mass[i];
            tail[i] = t;
        }
        ExactDist { scores, mass, tail, words }
    }

    /// P(S >= x)
    pub fn sf(&self, x: f64) -> f64 {
        // first index with scores[i] >= x
        let i = self.scores.partition_point(|&s| s < x);
        if i >= self.scores.len() {
            0.0
        } else {
            self.tail[i]
        }
    }

    /// largest attainable score strictly below x
    pub fn largest_below(&self, x: f64) -> Option<f64> {
        let i = self.scores.partition_point(|&s| s < x);
        if i == 0 {
            None
        } else {
            Some(self.scores[i - 1])
        }
    }

    pub fn min(&self) -> f64 {
        self.scores[0]
    }
    pub fn max(&self) -> f64 {
        *self.scores.last().unwrap()
    }
}

/// dyadic background over the first k-1 symbols (multiples of 1/64, all non-zero), wildcard 0
pub fn dyadic_nonzero_bg(rng: &mut Rng, k: usize) -> Vec<f32> {
    let n = k - 1;
    let unit = if n <= 4 { 64u32 } else { 256u32 };
    let mut parts = vec![1u32; n];
    let mut left = unit - n as u32;
    while left > 0 {
        let j = rng.below(n);
        let add = rng.range(1, left as usize) as u32;
        parts[j] += add;
        left -= add;
    }
    let mut v: Vec<f32> = parts.iter().map(|&p| p as f32 / unit as f32).collect();
    v.push(0.0);
    v
}

/// dyadic background over ALL k symbols, the wildcard included (all non-zero)
pub fn dyadic_full_bg(rng: &mut Rng, k: usize) -> Vec<f32> {
    let unit = if k <= 5 { 64u32 } else { 256u32 };
    let mut parts = vec![1u32; k];
    let mut left = unit - k as u32;
    while left > 0 {
        let j = rng.below(k);
        let add = rng.range(1, left as usize) as u32;
        parts[j] += add;
        left -= add;
    }
    parts.iter().map(|&p| p as f32 / unit as f32).collect()
}

pub fn uniform_bg(k: usize) -> Vec<f32> {
    let mut v = vec![1.0 / (k - 1) as f32; k - 1];
    v.push(0.0);
    v
}
