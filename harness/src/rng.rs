//! Deterministic PRNG (xoshiro256**) seeded from (VERIF_SEED, property, case index).

#[derive(Clone, Debug)]
pub struct Rng {
    s: [u64; 4],
}

fn splitmix(x: &mut u64) -> u64 {
    *x = x.wrapping_add(0x9E3779B97F4A7C15);
    let mut z = *x;
    z = (z ^ (z >> 30)).wrapping_mul(0xBF58476D1CE4E5B9);
    z = (z ^ (z >> 27)).wrapping_mul(0x94D049BB133111EB);
    z ^ (z >> 31)
}

pub fn hash_str(s: &str) -> u64 {
    let mut h: u64 = 0xcbf29ce484222325;
    for b in s.bytes() {
        h ^= b as u64;
        h = h.wrapping_mul(0x100000001b3);
    }
    h
}

impl Rng {
    pub fn new(seed: u64) -> Self {
        let mut x = seed;
        let s = [splitmix(&mut x), splitmix(&mut x), splitmix(&mut x), splitmix(&mut x)];
        Rng { s }
    }

    /// RNG for one case of one property: independent of thread scheduling.
    pub fn for_case(seed: u64, prop: &str, case: u64) -> Self {
        let mut x = seed ^ hash_str(prop).rotate_left(17) ^ case.wrapping_mul(0xD6E8FEB86659FD93);
        let _ = splitmix(&mut x);
        Rng::new(x)
    }

    pub fn next_u64(&mut self) -> u64 {
        let r = self.s[1].wrapping_mul(5).rotate_left(7).wrapping_mul(9);
        let t = self.s[1] << 17;
        self.s[2] ^= self.s[0];
        self.s[3] ^= self.s[1];
        self.s[1] ^= self.s[2];
        self.s[0] ^= self.s[3];
        self.s[2] ^= t;
        self.s[3] = self.s[3].rotate_left(45);
        r
    }

    /// uniform in [0, n)
    pub fn below(&mut self, n: usize) -> usize {
        if n == 0 {
            return 0;
        }
        (self.next_u64() % n as u64) as usize
    }

    /// uniform in [lo, hi] inclusive
    pub fn range(&mut self, lo: usize, hi: usize) -> usize {
        lo + self.below(hi - lo + 1)
    }

    pub fn f64(&mut self) -> f64 {
        (self.next_u64() >> 11) as f64 / (1u64 << 53) as f64
    }

    pub fn f32_in(&mut self, lo: f32, hi: f32) -> f32 {
        lo + (hi - lo) * self.f64() as f32
    }

    pub fn chance(&mut self, p: f64) -> bool {
        self.f64() < p
    }

    pub fn pick<'a, T>(&mut self, xs: &'a [T]) -> &'a T {
        &xs[self.below(xs.len())]
    }

    pub fn shuffle<T>(&mut self, xs: &mut [T]) {
        for i in (1..xs.len()).rev() {
            let j = self.below(i + 1);
            xs.swap(i, j);
        }
    }
}

impl rand_core::RngCore for Rng {
    fn next_u32(&mut self) -> u32 {
        (self.next_u64() >> 32) as u32
    }
    fn next_u64(&mut self) -> u64 {
        Rng::next_u64(self)
    }
    fn fill_bytes(&mut self, dest: &mut [u8]) {
        rand_core::impls::fill_bytes_via_next(self, dest)
    }
    fn try_fill_bytes(&mut self, dest: &mut [u8]) -> Result<(), rand_core::Error> {
        self.fill_bytes(dest);
        Ok(())
    }
}
