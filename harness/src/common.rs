//! Shared infrastructure: configuration, per-thread reports, panic capture, parallel case runner.
use std::cell::RefCell;
use std::collections::{BTreeMap, HashSet};
use std::panic::{catch_unwind, AssertUnwindSafe};
use std::path::PathBuf;

use crate::json::J;
use crate::rng::Rng;

#[derive(Clone, Copy, Debug, PartialEq, Eq)]
pub enum Tier {
    Quick,
    Thorough,
}

#[derive(Clone, Debug)]
pub struct Config {
    pub prop: String,
    pub tier: Tier,
    pub seed: u64,
    pub threads: usize,
    pub only: Option<u64>,
    pub out: PathBuf,
    /// multiplies the number of random cases (used by the sanitizer builds to shrink workloads)
    pub scale: f64,
    /// free-form extra arguments (shard selection for memsafe, ...)
    pub extra: Vec<String>,
}

impl Config {
    pub fn n(&self, quick: usize, thorough: usize) -> usize {
        let base = match self.tier {
            Tier::Quick => quick,
            Tier::Thorough => thorough,
        };
        ((base as f64) * self.scale).ceil().max(1.0) as usize
    }
    pub fn thorough(&self) -> bool {
        self.tier == Tier::Thorough
    }
    pub fn extra_value(&self, key: &str) -> Option<String> {
        let p = format!("{}=", key);
        self.extra.iter().find(|a| a.starts_with(&p)).map(|a| a[p.len()..].to_string())
    }
}

#[derive(Clone, Debug)]
pub struct Violation {
    pub kind: String,
    pub case: u64,
    pub msg: String,
    pub witness: J,
}

#[derive(Default)]
pub struct Report {
    pub evaluations: u64,
    pub digests: HashSet<u64>,
    pub cov: BTreeMap<String, u64>,
    pub samples: Vec<J>,
    pub violations: Vec<Violation>,
    pub kinds: BTreeMap<String, u64>,
    pub harness_errors: Vec<String>,
}

pub const MAX_RECORDED_VIOLATIONS_PER_KIND: u64 = 5;
pub const MAX_SAMPLES: usize = 6;

impl Report {
    pub fn eval(&mut self) {
        self.evaluations += 1;
    }
    pub fn evals(&mut self, n: u64) {
        self.evaluations += n;
    }
    pub fn nontrivial(&mut self, digest: u64) {
        self.digests.insert(digest);
    }
    pub fn cover(&mut self, key: &str) {
        *self.cov.entry(key.to_string()).or_insert(0) += 1;
    }
    pub fn cover_n(&mut self, key: &str, n: u64) {
        *self.cov.entry(key.to_string()).or_insert(0) += n;
    }
    pub fn sample(&mut self, j: impl FnOnce() -> J) {
        if self.samples.len() < MAX_SAMPLES {
            self.samples.push(j());
        }
    }
    pub fn violate(&mut self, kind: &str, case: u64, msg: String, witness: J) {
        let n = self.kinds.entry(kind.to_string()).or_insert(0);
        *n += 1;
        if *n <= MAX_RECORDED_VIOLATIONS_PER_KIND {
            self.violations.push(Violation { kind: kind.to_string(), case, msg, witness });
        }
    }
    pub fn merge(&mut self, other: Report) {
        self.evaluations += other.evaluations;
        self.digests.extend(other.digests);
        for (k, v) in other.cov {
            *self.cov.entry(k).or_insert(0) += v;
        }
        for s in other.samples {
            if self.samples.len() < MAX_SAMPLES {
                self.samples.push(s);
            }
        }
        for (k, v) in other.kinds {
            *self.kinds.entry(k).or_insert(0) += v;
        }
        for v in other.violations {
            let recorded = self.violations.iter().filter(|x| x.kind == v.kind).count() as u64;
            if recorded < MAX_RECORDED_VIOLATIONS_PER_KIND {
                self.violations.push(v);
            }
        }
        self.harness_errors.extend(other.harness_errors);
    }
}

// --- panic capture -----------------------------------------------------------

thread_local! {
    static LAST_PANIC: RefCell<Option<String>> = const { RefCell::new(None) };
}

pub fn install_panic_hook() {
    std::panic::set_hook(Box::new(|info| {
        let msg = if let Some(s) = info.payload().downcast_ref::<&str>() {
            s.to_string()
        } else if let Some(s) = info.payload().downcast_ref::<String>() {
            s.clone()
        } else {
            "<non-string panic>".to_string()
        };
        let loc = info
            .location()
            .map(|l| format!("{}:{}", l.file(), l.line()))
            .unwrap_or_default();
        LAST_PANIC.with(|p| *p.borrow_mut() = Some(format!("{} @ {}", msg, loc)));
    }));
}

/// Run a library call; a panic is returned as Err(message).
pub fn guard<T>(f: impl FnOnce() -> T) -> Result<T, String> {
    match catch_unwind(AssertUnwindSafe(f)) {
        Ok(v) => Ok(v),
        Err(_) => Err(LAST_PANIC
            .with(|p| p.borrow_mut().take())
            .unwrap_or_else(|| "<panic>".to_string())),
    }
}

/// The source location part of a captured panic message, with the line number stripped
/// (used to build stable violation kinds).
pub fn panic_site(msg: &str) -> String {
    match msg.rfind(" @ ") {
        Some(i) => {
            let loc = &msg[i + 3..];
            let file = loc.rsplit_once(':').map(|x| x.0).unwrap_or(loc);
            // keep only the path below the repository root
            match file.find("lightmotif") {
                Some(j) => file[j..].to_string(),
                None => file.to_string(),
            }
        }
        None => "?".to_string(),
    }
}

// --- digest ------------------------------------------------------------------

pub struct Digest(pub u64);
impl Digest {
    pub fn new() -> Self {
        Digest(0xcbf29ce484222325)
    }
    pub fn bytes(&mut self, b: &[u8]) -> &mut Self {
        for x in b {
            self.0 ^= *x as u64;
            self.0 = self.0.wrapping_mul(0x100000001b3);
        }
        self
    }
    pub fn u(&mut self, x: u64) -> &mut Self {
        self.bytes(&x.to_le_bytes())
    }
    pub fn f32s(&mut self, xs: &[f32]) -> &mut Self {
        for x in xs {
            self.bytes(&x.to_bits().to_le_bytes());
        }
        self
    }
    pub fn get(&self) -> u64 {
        self.0
    }
}

// --- parallel runner ---------------------------------------------------------

/// Run `n_cases` cases (indices 0..n_cases) over the worker threads. Each case gets its own
/// deterministic RNG; a panic escaping the case function itself is a harness error.
pub fn run_cases<F>(cfg: &Config, n_cases: u64, f: F) -> Report
where
    F: Fn(u64, &mut Rng, &mut Report) + Sync,
{
    let indices: Vec<u64> = match cfg.only {
        Some(i) => vec![i],
        None => (0..n_cases).collect(),
    };
    let threads = cfg.threads.max(1).min(indices.len().max(1));
    let mut total = Report::default();
    let reports: Vec<Report> = std::thread::scope(|scope| {
        let mut handles = Vec::new();
        for t in 0..threads {
            let idx = &indices;
            let f = &f;
            let cfg = cfg;
            handles.push(
                std::thread::Builder::new()
                    .stack_size(64 << 20)
                    .spawn_scoped(scope, move || {
                        let mut rep = Report::default();
                        let mut k = t;
                        while k < idx.len() {
                            let case = idx[k];
                            let mut rng = Rng::for_case(cfg.seed, &cfg.prop, case);
                            lightmotif::pli::dispatch::verif_force_backend(None);
                            let r = catch_unwind(AssertUnwindSafe(|| f(case, &mut rng, &mut rep)));
                            if r.is_err() {
                                let msg = LAST_PANIC
                                    .with(|p| p.borrow_mut().take())
                                    .unwrap_or_default();
                                rep.harness_errors.push(format!("case {}: harness panic: {}", case, msg));
                            }
                            k += threads;
                        }
                        let counts = lightmotif::pli::dispatch::verif_dispatch_counts();
                        rep.cover_n("dispatch_forced.generic", counts[0]);
                        rep.cover_n("dispatch_forced.sse2", counts[1]);
                        rep.cover_n("dispatch_forced.avx2", counts[2]);
                        rep
                    })
                    .unwrap(),
            );
        }
        handles.into_iter().map(|h| h.join().unwrap()).collect()
    });
    for r in reports {
        total.merge(r);
    }
    total
}

/// Write the summary consumed by the `check` driver.
pub fn write_summary(cfg: &Config, rep: &Report, rule: &str, required: &[&str], notes: J) {
    let mut inconclusive: Vec<J> = rep.harness_errors.iter().map(|e| J::s(e.clone())).collect();
    // (non-vacuity is judged on the full-size run; a scaled-down supplementary pass - the
    // dev-profile re-run at 1/10 of the cases - need not reach every rare class)
    if cfg.only.is_none() && cfg.scale >= 1.0 {
        for key in required {
            if rep.cov.get(*key).copied().unwrap_or(0) == 0 {
                inconclusive.push(J::s(format!("required coverage class never observed: {}", key)));
            }
        }
    }
    let violations = J::Arr(
        rep.violations
            .iter()
            .map(|v| {
                J::obj()
                    .set("kind", J::s(v.kind.clone()))
                    .set("case", J::UInt(v.case))
                    .set("message", J::s(v.msg.clone()))
                    .set("witness", v.witness.clone())
            })
            .collect(),
    );
    let j = J::obj()
        .set("property", J::s(cfg.prop.clone()))
        .set("tier", J::s(if cfg.thorough() { "thorough" } else { "quick" }))
        .set("seed", J::UInt(cfg.seed))
        .set("evaluations", J::UInt(rep.evaluations))
        .set("distinct_nontrivial", J::UInt(rep.digests.len() as u64))
        .set("rule", J::s(rule))
        .set("coverage", J::from_counts(&rep.cov))
        .set("required_coverage", J::Arr(required.iter().map(|s| J::s(*s)).collect()))
        .set("samples", J::Arr(rep.samples.clone()))
        .set("violation_kinds", J::from_counts(&rep.kinds))
        .set("violations", violations)
        .set("inconclusive", J::Arr(inconclusive))
        .set("notes", notes);
    std::fs::create_dir_all(&cfg.out).ok();
    let path = cfg.out.join("summary.json");
    std::fs::write(&path, j.to_string()).expect("cannot write summary");
}
