//! C11 - MEME-style score distribution agrees with the exact tail within its resolution.
use generic_array::GenericArray;
use lightmotif::abc::{Alphabet, Background, Dna, Protein};
use lightmotif::pwm::dist::ScoreDistribution;
use lightmotif::pwm::ScoringMatrix;

use crate::common::*;
use crate::distmodel::*;
use crate::json::J;
use crate::model::*;
use crate::rng::Rng;

pub const RULE: &str = "case = (alphabet, scoring matrix with finite non-wildcard entries, background uniform, dyadic non-uniform, strongly skewed from counts, or with a non-zero wildcard frequency (the wildcard is then one more symbol of the random word, also with wildcard cells below the rest of their row)). For DNA widths <= 8 and protein widths <= 3 the exact distribution of the score of a background-distributed word is enumerated (all K^M words, f64) and every pvalue(s) must lie in [P(S >= s+d), P(S >= s-d)] (+-1e-9), d = (M/2+1) discretisation steps (step read back through unscale); query scores: below the minimum, above the maximum, exactly attainable, attainable +- epsilon, uniform in range. Structural checks for all widths up to 30: sf() non-increasing within [0,1], p-values non-increasing along an increasing score grid, pvalue(score(p)) <= p for p log-uniform in (0,1) and equal to tabulated tails. Non-trivial = width >= 2; distinct = distinct (alphabet, matrix, background).";

pub const REQUIRED: &[&str] = &[
    "alphabet.dna", "alphabet.protein", "bg.uniform", "bg.nonuniform", "bg.skewed_from_counts", "bg.wildcard_weighted", "bg.null_regular_symbol", "class.wildcard_cell_below_row", "exact.enumerated", "structural.only",
    "query.below_min", "query.far_below_min", "query.far_above_max", "query.above_max", "query.attainable", "query.attainable_eps", "query.random",
    "roundtrip.p_log_uniform", "roundtrip.p_attainable_tail", "matrix.log_odds", "matrix.arbitrary_finite", "matrix.flat", "roundtrip.p=1",
];

fn run_case<A: Alphabet>(case: u64, rng: &mut Rng, rep: &mut Report, alpha: &str, max_exact: usize) {
    let k = k_of::<A>();
    rep.eval();
    rep.cover(&format!("alphabet.{}", alpha));
    let exact_mode = rng.chance(0.8);
    let m = if exact_mode { rng.range(1, max_exact) } else { rng.range(max_exact + 1, 30) };
    let (bgv, bg) = if rng.chance(0.15) {
        // strongly skewed background from counts (rare symbols have tiny probabilities): word
        // probabilities span many orders of magnitude, so lost mass shows in relative terms
        rep.cover("bg.skewed_from_counts");
        let mut c: Vec<usize> = (0..k).map(|j| if j == k - 1 { 0 } else { 1 }).collect();
        c[rng.below(k - 1)] = *rng.pick(&[9997usize, 99_997, 997]);
        let ga: GenericArray<usize, A::K> = c.iter().cloned().collect();
        let b = Background::<A>::from_counts(&ga).unwrap();
        (b.frequencies().to_vec(), b)
    } else if rng.chance(0.2) {
        // the wildcard has a non-zero frequency (as Background::from_sequence(.., true) gives on
        // sequences containing N): it is then one more symbol of the random word
        rep.cover("bg.wildcard_weighted");
        if rng.chance(0.5) {
            let bgv = dyadic_full_bg(rng, k);
            match Background::<A>::new(bgv.iter().cloned().collect::<GenericArray<f32, A::K>>()) {
                Ok(b) => (bgv, b),
                Err(_) => {
                    rep.violate("c11.setup", case, format!("dyadic background rejected: {:?}", bgv), J::Null);
                    return;
                }
            }
        } else {
            let mut c: Vec<usize> = (0..k).map(|_| rng.range(1, 30)).collect();
            c[k - 1] = rng.range(1, 10);
            let ga: GenericArray<usize, A::K> = c.iter().cloned().collect();
            let b = Background::<A>::from_counts(&ga).unwrap();
            (b.frequencies().to_vec(), b)
        }
    } else if rng.chance(0.12) {
        // one or two regular symbols never occur (a GC-only genome, a depleted residue): their
        // frequency is null although later symbols of the alphabet have a positive one
        rep.cover("bg.null_regular_symbol");
        let mut bgv = dyadic_nonzero_bg(rng, k);
        for _ in 0..rng.range(1, 2) {
            let z = rng.below(k - 2);
            let to = (z + 1 + rng.below(k - 2 - z)).min(k - 2);
            if to != z && bgv[z] > 0.0 {
                bgv[to] += bgv[z];
                bgv[z] = 0.0;
            }
        }
        match Background::<A>::new(bgv.iter().cloned().collect::<GenericArray<f32, A::K>>()) {
            Ok(b) => (bgv, b),
            Err(_) => {
                rep.violate("c11.setup", case, format!("dyadic background rejected: {:?}", bgv), J::Null);
                return;
            }
        }
    } else if rng.chance(0.5) {
        rep.cover("bg.uniform");
        (uniform_bg(k), Background::<A>::uniform())
    } else {
        rep.cover("bg.nonuniform");
        let bgv = dyadic_nonzero_bg(rng, k);
        match Background::<A>::new(bgv.iter().cloned().collect::<GenericArray<f32, A::K>>()) {
            Ok(b) => (bgv, b),
            Err(_) => {
                rep.violate("c11.setup", case, format!("dyadic background rejected: {:?}", bgv), J::Null);
                return;
            }
        }
    };
    // matrix: log-odds built by the library from counts, or arbitrary finite cells
    // (log-odds under a null frequency are -inf: outside "finite non-wildcard entries")
    let null_regular = bgv[..k - 1].iter().any(|&x| x == 0.0);
    let (pssm, fam): (ScoringMatrix<A>, &str) = if !null_regular && rng.chance(0.6) {
        rep.cover("matrix.log_odds");
        let mut dm = lightmotif::dense::DenseMatrix::<u32, A::K>::new(m);
        for i in 0..m {
            for j in 0..k - 1 {
                let hi = if rng.chance(0.3) { 3 } else { 40 };
                dm[i][j] = rng.below(hi) as u32;
            }
        }
        let cm = lightmotif::pwm::CountMatrix::<A>::new(dm).unwrap();
        let pseudo = *rng.pick(&[0.1f32, 0.25, 1.0]);
        (cm.to_freq(pseudo).to_scoring(bg.clone()), "log_odds")
    } else {
        rep.cover("matrix.arbitrary_finite");
        let kind = *rng.pick(&[MatKind::Finite, MatKind::SmallInt, MatKind::FewValued]);
        let mut rows = gen_matrix(rng, k, m, kind);
        if rng.chance(0.08) {
            // every cell the same value: the range of the matrix is empty
            let v = *rng.pick(&[0.0f32, 1.0, -2.5, 0.37]);
            for r in rows.iter_mut() {
                for x in r.iter_mut() {
                    *x = v;
                }
            }
            rep.cover("matrix.flat");
        }
        let wild_weight = bgv[k - 1] > 0.0;
        if rng.chance(if wild_weight { 0.2 } else { 0.5 }) {
            for r in rows.iter_mut() {
                r[k - 1] = f32::NEG_INFINITY;
            }
        } else if wild_weight && rng.chance(0.5) {
            // wildcard cells strictly below the rest of their row
            for r in rows.iter_mut() {
                let lo = r[..k - 1].iter().cloned().fold(f32::INFINITY, f32::min);
                r[k - 1] = lo - rng.f32_in(0.5, 3.0);
            }
            rep.cover("class.wildcard_cell_below_row");
        }
        (ScoringMatrix::<A>::new(bg.clone(), dense::<A>(&rows)), "arbitrary")
    };
    let rows: Vec<Vec<f32>> = (0..m).map(|i| pssm.matrix()[i].to_vec()).collect();
    let wit = |extra: J| {
        J::obj()
            .set("alphabet", J::s(alpha))
            .set("width", J::u(m))
            .set("matrix_family", J::s(fam))
            .set("background", J::Arr(bgv.iter().map(|&x| J::f(x as f64)).collect()))
            .set("matrix", J::Arr(rows.iter().map(|r| J::Arr(r.iter().map(|&x| J::f(x as f64)).collect())).collect()))
            .set("detail", extra)
    };
    let dist: ScoreDistribution<A> = match guard(|| pssm.to_score_distribution()) {
        Ok(d) => d,
        Err(p) => {
            rep.violate(&format!("c11.panic:{}", panic_site(&p)), case, format!("panic in to_score_distribution: {}", p), wit(J::Null));
            return;
        }
    };
    // structural: sf non-increasing within [0,1]
    let sf = dist.sf();
    // f32 background frequencies need not sum to exactly one once widened to f64 (from_counts,
    // 1/20): the total mass of the table - and of the exact model - is one only up to that noise
    let bg_noise = 1e-9 + 2.0 * (m as f64) * (bgv.iter().map(|&x| x as f64).sum::<f64>() - 1.0).abs();
    for i in 0..sf.len() {
        if !(sf[i] >= 0.0 && sf[i] <= 1.0 + bg_noise) {
            rep.violate("c11.sf_range", case, format!("sf[{}] = {} outside [0,1]", i, sf[i]), wit(J::Null));
            return;
        }
        if i > 0 && sf[i] > sf[i - 1] {
            rep.violate("c11.sf_monotone", case, format!("sf[{}] = {} > sf[{}] = {}", i, sf[i], i - 1, sf[i - 1]), wit(J::Null));
            return;
        }
    }
    let step = (dist.unscale(1000) as f64 - dist.unscale(0) as f64) / 1000.0;
    let lo_f = rows.iter().map(|r| r[..k - 1].iter().cloned().fold(f32::INFINITY, f32::min) as f64).sum::<f64>();
    let hi_f = rows.iter().map(|r| r[..k - 1].iter().cloned().fold(f32::NEG_INFINITY, f32::max) as f64).sum::<f64>();
    // monotone along an increasing grid
    let mut prev = f64::INFINITY;
    let n_grid = 200;
    for g in 0..=n_grid {
        let s = lo_f - 2.0 + (hi_f - lo_f + 4.0) * (g as f64) / (n_grid as f64);
        let p = match guard(|| dist.pvalue(s as f32)) {
            Ok(p) => p,
            Err(pn) => {
                rep.violate(&format!("c11.panic:{}", panic_site(&pn)), case, format!("panic in pvalue({}): {}", s, pn), wit(J::Null));
                return;
            }
        };
        if !(p >= 0.0 && p <= 1.0 + bg_noise) {
            rep.violate("c11.pvalue_range", case, format!("pvalue({}) = {} outside [0,1]", s, p), wit(J::Null));
            return;
        }
        if p > prev {
            rep.violate("c11.pvalue_monotone", case, format!("pvalue({}) = {} is larger than the p-value {} of a smaller score", s, p, prev), wit(J::Null));
            return;
        }
        prev = p;
    }
    // round trip p -> score -> p
    let mut ps: Vec<f64> = Vec::new();
    for _ in 0..20 {
        ps.push(10f64.powf(-rng.f64() * 9.0));
        rep.cover("roundtrip.p_log_uniform");
    }
    for _ in 0..10 {
        let v = sf[rng.below(sf.len())];
        if v > 0.0 && v < 1.0 {
            ps.push(v);
            rep.cover("roundtrip.p_attainable_tail");
        }
    }
    // the ends of the p-value scale (no verdict on p <= 0, which is not a probability of any score)
    ps.push(1.0);
    rep.cover("roundtrip.p=1");
    if let Err(pn) = guard(|| (dist.score(0.0), dist.score(-1.0), dist.score(2.0), dist.min_pvalue())) {
        rep.violate(&format!("c11.panic:{}", panic_site(&pn)), case, format!("panic in score() at the ends of the scale: {}", pn), wit(J::Null));
        return;
    }
    for &p in ps.iter() {
        let r = guard(|| {
            let s = dist.score(p);
            (s, dist.pvalue(s))
        });
        match r {
            Err(pn) => {
                rep.violate(&format!("c11.panic:{}", panic_site(&pn)), case, format!("panic in score({})/pvalue: {}", p, pn), wit(J::Null));
                return;
            }
            Ok((s, back)) => {
                if back > p * (1.0 + 1e-12) {
                    rep.violate("c11.roundtrip", case, format!("pvalue(score({})) = {} > {} (score {})", p, back, p, s), wit(J::Null));
                    return;
                }
            }
        }
    }
    if !exact_mode {
        rep.cover("structural.only");
    } else {
        rep.cover("exact.enumerated");
        let ex = ExactDist::new(&rows, &bgv);
        let d = (m as f64 / 2.0 + 1.0) * step;
        let mut queries: Vec<(f64, &str)> = Vec::new();
        queries.push((ex.min() - 0.5, "query.below_min"));
        queries.push((ex.min() - 50.0 * step, "query.below_min"));
        queries.push((ex.min() - 10.0, "query.far_below_min"));
        queries.push((ex.min() - 1000.0, "query.far_below_min"));
        queries.push((-1.0e30, "query.far_below_min"));
        queries.push((ex.max() + 1000.0, "query.far_above_max"));
        queries.push((1.0e30, "query.far_above_max"));
        queries.push((ex.max() + 0.5, "query.above_max"));
        queries.push((ex.max() + 3.0 * step, "query.above_max"));
        queries.push((ex.min(), "query.attainable"));
        queries.push((ex.max(), "query.attainable"));
        for _ in 0..12 {
            let s = ex.scores[rng.below(ex.scores.len())];
            queries.push((s, "query.attainable"));
            queries.push((s + 1e-4, "query.attainable_eps"));
            queries.push((s - 1e-4, "query.attainable_eps"));
        }
        for _ in 0..20 {
            queries.push((ex.min() + (ex.max() - ex.min()) * rng.f64(), "query.random"));
        }
        for (s, key) in queries {
            rep.cover(key);
            let s32 = s as f32;
            let sq = s32 as f64;
            let p = match guard(|| dist.pvalue(s32)) {
                Ok(p) => p,
                Err(pn) => {
                    rep.violate(&format!("c11.panic:{}", panic_site(&pn)), case, format!("panic in pvalue({}): {}", s, pn), wit(J::Null));
                    return;
                }
            };
            let lo = ex.sf(sq + d);
            let hi = ex.sf(sq - d);
            // f32 background frequencies need not sum to exactly one once widened to f64
            let bg_sum: f64 = bgv.iter().map(|&x| x as f64).sum();
            // relative: the table is built from sums of non-negative f64 terms, so tiny tail
            // probabilities are accurate to rounding too (absolute slack 1e-300 for exact zeros)
            let noise = 1e-9 + 2.0 * (m as f64) * (bg_sum - 1.0).abs();
            if p < lo * (1.0 - noise) - 1e-300 || p > hi * (1.0 + noise) + 1e-300 {
                rep.violate(
                    "c11.tail_bounds",
                    case,
                    format!("pvalue({}) = {} outside [P(S >= s+d) = {}, P(S >= s-d) = {}] with d = {} ({} steps of {})", sq, p, lo, hi, d, m as f64 / 2.0 + 1.0, step),
                    wit(J::obj().set("score", J::f(sq)).set("got", J::f(p)).set("lower", J::f(lo)).set("upper", J::f(hi))),
                );
                return;
            }
        }
    }
    if m >= 2 {
        let mut dg = Digest::new();
        dg.bytes(alpha.as_bytes()).f32s(&bgv);
        for r in &rows {
            dg.f32s(r);
        }
        rep.nontrivial(dg.get());
    }
    rep.sample(|| wit(J::obj().set("step", J::f(step)).set("sf_len", J::u(sf.len())).set("min_pvalue", J::f(dist.min_pvalue()))).set("case", J::UInt(case)));
}

/// A user-defined RNA alphabet whose `symbols()` are listed alphabetically (A C G U N) while the
/// column indices follow another order (A=0 C=1 U=2 G=3 N=4): position in the list != index.
#[derive(Clone, Copy, Debug, PartialEq, Eq)]
pub struct R5(pub u8);

impl Default for R5 {
    fn default() -> Self {
        R5(4)
    }
}

impl lightmotif::abc::Symbol for R5 {
    fn as_index(&self) -> usize {
        self.0 as usize
    }
    fn as_ascii(&self) -> u8 {
        b"ACUGN"[self.0 as usize]
    }
    fn from_ascii(c: u8) -> Result<Self, lightmotif::err::InvalidSymbol> {
        match b"ACUGN".iter().position(|&x| x == c) {
            Some(i) => Ok(R5(i as u8)),
            None => Err(lightmotif::err::InvalidSymbol(c as char)),
        }
    }
}

static R5_LISTED: [R5; 5] = [R5(0), R5(1), R5(3), R5(2), R5(4)];

#[derive(Clone, Copy, Debug, Default, PartialEq, Eq)]
pub struct RnaListed;

impl Alphabet for RnaListed {
    type Symbol = R5;
    type K = lightmotif::num::U5;
    fn symbols() -> &'static [R5] {
        &R5_LISTED
    }
    fn as_str() -> &'static str {
        "ACGUN"
    }
}

pub fn run(cfg: &Config) -> Report {
    let n = cfg.n(3000, 100_000) as u64;
    run_cases(cfg, n, |case, rng, rep| {
        if case % 16 == 9 {
            // 39 regular symbols: exact enumeration up to width 2
            run_case::<crate::iowide::Wide40>(case, rng, rep, "user_defined_40", 2)
        } else if case % 16 == 5 {
            run_case::<RnaListed>(case, rng, rep, "user_defined_listed_out_of_index_order", 7)
        } else if case % 4 == 3 {
            run_case::<Protein>(case, rng, rep, "protein", 3)
        } else {
            run_case::<Dna>(case, rng, rep, "dna", 8)
        }
    })
}
