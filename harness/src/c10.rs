//! C10 - reverse-complementing a motif mirrors its scores on the opposite strand.
use generic_array::GenericArray;
use lightmotif::abc::{Background, Dna};
use lightmotif::dense::DenseMatrix;
use lightmotif::num::U32;
use lightmotif::pwm::{CountMatrix, ScoringMatrix};
use lightmotif::seq::StripedSequence;

use crate::common::*;
use crate::json::J;
use crate::model::*;
use crate::rng::Rng;

pub const RULE: &str = "case = (DNA count matrix of width 1..40 with arbitrary counts incl. wildcard counts, scalar pseudocount, strand-symmetric background (incl. a wildcard weight and a null complementary pair), other logarithm bases, a DNA sequence with wildcards; plus arbitrary finite / -inf scoring matrices with a finite wildcard column). Checks: rc(rc(x)) == x cell-exact for count, frequency, weight and scoring matrices; rc(x)[i][s] == x[M-1-i][complement(s)] cell-exact; rc commutes with to_freq / to_weight / to_scoring under the symmetric background (relative 1e-6: the row sum is taken in another order); rc(pssm) scores position L-M-i of rc(sequence) as pssm scores position i of the sequence (within the f32 summation bound), through the full scan and through score_position on striped sequences in any look-ahead state (none, built for a shorter motif, more than needed; windows crossing a column boundary are sampled on purpose); the wildcard column maps to itself. Non-trivial = width >= 2 and a non-palindromic matrix; distinct = distinct (matrix, sequence).";

pub const REQUIRED: &[&str] = &[
    "type.count", "type.frequency", "type.weight", "type.scoring", "check.involution", "check.definition",
    "check.commutes", "check.involution_other_base", "class.background_with_null_complementary_pair", "class.position_without_observations", "class.palindromic_with_asymmetric_wildcard", "class.all_zero_position", "alphabet.user_defined_12_complementable", "alphabet.user_defined", "class.nan_frequencies", "check.mirrored_scores_with_nan_cells", "check.hand_built_frequency_rows", "check.mirrored_scores", "check.mirrored_score_position", "score_position.no_lookahead_rows", "score_position.too_few_lookahead_rows", "score_position.window_crosses_column", "class.finite_wildcard_column", "class.neg_inf_cells",
    "class.sequence_with_wildcards", "class.width=1", "class.background_with_wildcard_frequency",
];

const COMP: [usize; 5] = [2, 3, 0, 1, 4]; // A<->T, C<->G, N<->N  (symbol order A C T G N)

fn rc_seq(s: &[u8]) -> Vec<u8> {
    s.iter().rev().map(|&x| COMP[x as usize] as u8).collect()
}

fn cells_f32(m: &DenseMatrix<f32, <Dna as lightmotif::abc::Alphabet>::K>) -> Vec<Vec<f32>> {
    (0..m.rows()).map(|i| m[i].to_vec()).collect()
}

fn same_f32(a: f32, b: f32) -> bool {
    a.to_bits() == b.to_bits() || a == b || (a.is_nan() && b.is_nan())
}

/// cell-wise equality that lets NaN equal NaN (0/0 frequencies of an empty position)
fn same_cells(a: &DenseMatrix<f32, <Dna as lightmotif::abc::Alphabet>::K>, b: &DenseMatrix<f32, <Dna as lightmotif::abc::Alphabet>::K>) -> bool {
    a.rows() == b.rows() && (0..a.rows()).all(|i| (0..5).all(|j| same_f32(a[i][j], b[i][j])))
}

fn close(a: f32, b: f32) -> bool {
    if a == b || (a.is_nan() && b.is_nan()) {
        return true;
    }
    if !a.is_finite() || !b.is_finite() {
        return false;
    }
    ((a - b).abs() as f64) <= 1e-6 * (1.0 + a.abs().max(b.abs()) as f64) + 1e-7
}

// --- a user-defined nucleotide alphabet in the conventional ACGTN column order ----------------
// (the public Symbol / ComplementableSymbol / Alphabet traits are there for that): its complement
// permutation [3,2,1,0,4] differs from Dna's [2,3,0,1,4]

#[derive(Clone, Copy, Debug, Default, PartialEq, Eq)]
#[repr(u8)]
pub enum Base {
    A = 0,
    C = 1,
    G = 2,
    T = 3,
    #[default]
    N = 4,
}

impl lightmotif::abc::Symbol for Base {
    fn as_index(&self) -> usize {
        *self as usize
    }
    fn as_ascii(&self) -> u8 {
        b"ACGTN"[*self as usize]
    }
    fn from_ascii(c: u8) -> Result<Self, lightmotif::err::InvalidSymbol> {
        match c {
            b'A' => Ok(Base::A),
            b'C' => Ok(Base::C),
            b'G' => Ok(Base::G),
            b'T' => Ok(Base::T),
            b'N' => Ok(Base::N),
            _ => Err(lightmotif::err::InvalidSymbol(c as char)),
        }
    }
}

impl lightmotif::abc::ComplementableSymbol for Base {
    fn complement(&self) -> Self {
        match *self {
            Base::A => Base::T,
            Base::T => Base::A,
            Base::C => Base::G,
            Base::G => Base::C,
            Base::N => Base::N,
        }
    }
}

#[derive(Clone, Copy, Debug, Default, PartialEq, Eq)]
pub struct Acgt;

impl lightmotif::abc::Alphabet for Acgt {
    type Symbol = Base;
    type K = lightmotif::num::U5;
    fn symbols() -> &'static [Base] {
        &[Base::A, Base::C, Base::G, Base::T, Base::N]
    }
    fn as_str() -> &'static str {
        "ACGTN"
    }
}

// --- a second one with 12 symbols (more than 8 columns): ten letters paired two by two, one
// self-complementary letter, wildcard

#[derive(Clone, Copy, Debug, PartialEq, Eq)]
pub struct P12(pub u8);

impl Default for P12 {
    fn default() -> Self {
        P12(11)
    }
}

impl lightmotif::abc::Symbol for P12 {
    fn as_index(&self) -> usize {
        self.0 as usize
    }
    fn as_ascii(&self) -> u8 {
        b"ABCDEFGHIJKX"[self.0 as usize]
    }
    fn from_ascii(c: u8) -> Result<Self, lightmotif::err::InvalidSymbol> {
        match b"ABCDEFGHIJKX".iter().position(|&x| x == c) {
            Some(i) => Ok(P12(i as u8)),
            None => Err(lightmotif::err::InvalidSymbol(c as char)),
        }
    }
}

impl lightmotif::abc::ComplementableSymbol for P12 {
    fn complement(&self) -> Self {
        match self.0 {
            x if x < 10 => P12(x ^ 1),
            x => P12(x),
        }
    }
}

static P12_ALL: [P12; 12] = [P12(0), P12(1), P12(2), P12(3), P12(4), P12(5), P12(6), P12(7), P12(8), P12(9), P12(10), P12(11)];

#[derive(Clone, Copy, Debug, Default, PartialEq, Eq)]
pub struct Pairs12;

impl lightmotif::abc::Alphabet for Pairs12 {
    type Symbol = P12;
    type K = lightmotif::num::U12;
    fn symbols() -> &'static [P12] {
        &P12_ALL
    }
    fn as_str() -> &'static str {
        "ABCDEFGHIJKX"
    }
}

/// The four reverse complements over the user-defined alphabet, against the definition. The first
/// case of a process runs this BEFORE anything over Dna is reverse-complemented, later cases after.
fn custom_alphabet_case<A: lightmotif::abc::ComplementableAlphabet + PartialEq>(case: u64, rng: &mut Rng, rep: &mut Report, name: &str) -> bool
where
    A::K: PartialEq,
{
    use lightmotif::abc::Symbol;
    use lightmotif::num::Unsigned;
    let kk = <A::K as Unsigned>::USIZE;
    // the permutation the alphabet itself defines
    let comp: Vec<usize> = {
        let mut c = vec![0usize; kk];
        for s in A::symbols() {
            c[s.as_index()] = A::complement(*s).as_index();
        }
        c
    };
    let w = rng.range(1, 12);
    let mut dm = DenseMatrix::<u32, A::K>::new(w);
    for i in 0..w {
        for j in 0..kk {
            dm[i][j] = rng.below(50) as u32 + if j == 0 { 1 } else { 0 };
        }
    }
    let res = guard(|| {
        let cm = CountMatrix::<A>::new(dm.clone()).unwrap();
        let freq = cm.to_freq(0.25);
        let weight = freq.to_weight(None);
        let scoring = freq.to_scoring(None);
        let (rc, rf, rw, rs) = (cm.reverse_complement(), freq.reverse_complement(), weight.reverse_complement(), scoring.reverse_complement());
        let back = rc.reverse_complement() == cm && rs.reverse_complement() == scoring;
        (cm, freq, weight, scoring, rc, rf, rw, rs, back)
    });
    rep.cover(name);
    match res {
        Err(p) => {
            rep.violate(&format!("c10.panic:{}", panic_site(&p)), case, format!("panic with a user-defined alphabet ({}): {}", A::as_str(), p), J::obj().set("width", J::u(w)));
            false
        }
        Ok((cm, freq, weight, scoring, rc, rf, rw, rs, back)) => {
            if !back {
                rep.violate("c10.involution", case, format!("user-defined alphabet {}: rc(rc(x)) != x", A::as_str()), J::obj().set("width", J::u(w)));
                return false;
            }
            for i in 0..w {
                for s in 0..kk {
                    let j = comp[s];
                    let ok = rc.matrix()[i][s] == cm.matrix()[w - 1 - i][j]
                        && same_f32(rf.matrix()[i][s], freq.matrix()[w - 1 - i][j])
                        && same_f32(rw.matrix()[i][s], weight.matrix()[w - 1 - i][j])
                        && same_f32(rs.matrix()[i][s], scoring.matrix()[w - 1 - i][j]);
                    if !ok {
                        rep.violate(
                            "c10.definition",
                            case,
                            format!("user-defined alphabet {}: count rc[{}][{}] = {}, original[{}][{}] = {} (or the frequency / weight / scoring cell differs)", A::as_str(), i, s, rc.matrix()[i][s], w - 1 - i, j, cm.matrix()[w - 1 - i][j]),
                            J::obj().set("width", J::u(w)),
                        );
                        return false;
                    }
                }
            }
            true
        }
    }
}

fn run_case(case: u64, rng: &mut Rng, rep: &mut Report) {
    rep.eval();
    // even shards of cases start with the user-defined alphabet, odd ones with Dna
    if case % 2 == 0 || case % 16 == 5 {
        if !custom_alphabet_case::<Acgt>(case, rng, rep, "alphabet.user_defined") {
            return;
        }
        if case % 4 == 0 && !custom_alphabet_case::<Pairs12>(case, rng, rep, "alphabet.user_defined_12_complementable") {
            return;
        }
    }
    let w = if rng.chance(0.1) { 1 } else { rng.range(1, 40) };
    if w == 1 {
        rep.cover("class.width=1");
    }
    let fail = |rep: &mut Report, kind: &str, msg: String, extra: J| {
        rep.violate(kind, case, msg, J::obj().set("width", J::u(w)).set("detail", extra));
    };
    // count matrix
    let mut counts = vec![vec![0u32; 5]; w];
    for r in counts.iter_mut() {
        for j in 0..4 {
            r[j] = rng.below(60) as u32;
        }
        if rng.chance(0.3) {
            r[4] = rng.below(4) as u32;
        }
        if r.iter().all(|&c| c == 0) {
            r[0] = 1;
        }
    }
    if rng.chance(0.05) {
        // counts as large as the type allows (CountMatrix::new takes any u32): position totals
        // above 2^32
        let i = rng.below(w);
        counts[i][rng.below(4)] = u32::MAX - rng.below(3) as u32;
        counts[i][rng.below(4)] = 3_000_000_000;
        rep.cover("class.position_total_above_2^32");
    }
    // positions without any observation (legal for CountMatrix::new and the file readers): with a
    // zero pseudocount their frequencies are 0/0 = NaN on both strands alike
    let mut empty_rows = false;
    if rng.chance(0.12) {
        for _ in 0..rng.range(1, 2) {
            let i = rng.below(w);
            for c in counts[i].iter_mut() {
                *c = 0;
            }
        }
        empty_rows = true;
        rep.cover("class.position_without_observations");
    }
    let mut dm = DenseMatrix::<u32, _>::new(w);
    for i in 0..w {
        for j in 0..5 {
            dm[i][j] = counts[i][j];
        }
    }
    let cm = CountMatrix::<Dna>::new(dm).unwrap();
    let pseudo = *rng.pick(&[0.0f32, 0.1, 0.5, 1.0]);
    let nan_class = empty_rows && pseudo == 0.0;
    if nan_class {
        rep.cover("class.nan_frequencies");
    }
    // strand-symmetric background (dyadic): bg[A]=bg[T]=a, bg[C]=bg[G]=c, 2a+2c=1
    // optionally a non-zero wildcard frequency n (2a + 2c + n = 1, all dyadic)
    let n = if rng.chance(0.3) { *rng.pick(&[0.125f32, 0.25, 0.0625]) } else { 0.0 };
    if n > 0.0 {
        rep.cover("class.background_with_wildcard_frequency");
    }
    let half = (1.0 - n) / 2.0;
    // (0 and 0.5: one complementary pair never occurs - an AT-only or GC-only background)
    let a = *rng.pick(&[0.25f32, 0.125, 0.375, 0.3125, 0.0625, 0.0, 0.5]) * (1.0 - n);
    if a == 0.0 || a == half {
        rep.cover("class.background_with_null_complementary_pair");
    }
    let c = half - a;
    let bg = match Background::<Dna>::new(GenericArray::from([a, c, a, c, n])) {
        Ok(b) => b,
        Err(_) => {
            fail(rep, "c10.setup", format!("symmetric dyadic background [{},{},{},{},0] rejected", a, c, a, c), J::Null);
            return;
        }
    };
    let res = guard(|| {
        let freq = cm.to_freq(pseudo);
        let weight = freq.to_weight(bg.clone());
        let scoring = freq.to_scoring(bg.clone());
        let rcm = cm.reverse_complement();
        let rfreq = freq.reverse_complement();
        let rweight = weight.reverse_complement();
        let rscoring = scoring.reverse_complement();
        (freq, weight, scoring, rcm, rfreq, rweight, rscoring)
    });
    let (freq, weight, scoring, rcm, rfreq, rweight, rscoring) = match res {
        Ok(x) => x,
        Err(p) => {
            fail(rep, &format!("c10.panic:{}", panic_site(&p)), format!("panic: {}", p), J::Null);
            return;
        }
    };
    for t in ["count", "frequency", "weight", "scoring"] {
        rep.cover(&format!("type.{}", t));
    }
    // involution, cell exact
    rep.cover("check.involution");
    if rcm.reverse_complement() != cm {
        fail(rep, "c10.involution", "count matrix: rc(rc(x)) != x".into(), J::Null);
        return;
    }
    if if nan_class { !same_cells(rfreq.reverse_complement().matrix(), freq.matrix()) } else { rfreq.reverse_complement() != freq } {
        fail(rep, "c10.involution", "frequency matrix: rc(rc(x)) != x".into(), J::Null);
        return;
    }
    if if nan_class { !same_cells(rweight.reverse_complement().matrix(), weight.matrix()) } else { rweight.reverse_complement() != weight } {
        fail(rep, "c10.involution", "weight matrix: rc(rc(x)) != x".into(), J::Null);
        return;
    }
    if if nan_class { !same_cells(rscoring.reverse_complement().matrix(), scoring.matrix()) } else { rscoring.reverse_complement() != scoring } {
        fail(rep, "c10.involution", "scoring matrix: rc(rc(x)) != x".into(), J::Null);
        return;
    }
    if rscoring.len() != w || rcm.len() != w {
        fail(rep, "c10.definition", format!("rc changes the width: {} -> {}", w, rscoring.len()), J::Null);
        return;
    }
    // definition, cell exact
    rep.cover("check.definition");
    for i in 0..w {
        for s in 0..5 {
            if rcm.matrix()[i][s] != cm.matrix()[w - 1 - i][COMP[s]] {
                fail(rep, "c10.definition", format!("count rc[{}][{}] = {}, original[{}][{}] = {}", i, s, rcm.matrix()[i][s], w - 1 - i, COMP[s], cm.matrix()[w - 1 - i][COMP[s]]), J::Null);
                return;
            }
            for (name, r, o) in [
                ("frequency", rfreq.matrix()[i][s], freq.matrix()[w - 1 - i][COMP[s]]),
                ("weight", rweight.matrix()[i][s], weight.matrix()[w - 1 - i][COMP[s]]),
                ("scoring", rscoring.matrix()[i][s], scoring.matrix()[w - 1 - i][COMP[s]]),
            ] {
                if !same_f32(r, o) {
                    fail(rep, "c10.definition", format!("{} rc[{}][{}] = {}, original[{}][{}] = {}", name, i, s, r, w - 1 - i, COMP[s], o), J::Null);
                    return;
                }
            }
        }
    }
    // background preserved
    if rweight.background().frequencies() != weight.background().frequencies() || rscoring.background().frequencies() != scoring.background().frequencies() {
        fail(rep, "c10.definition", "rc changes the background of the matrix".into(), J::Null);
        return;
    }
    // scoring matrices in another logarithm base, and the way back to weights: equality (`==`, the
    // whole object) after a double reverse complement, and commutation of rc with the From impl
    {
        let base = *rng.pick(&[10.0f32, std::f32::consts::E, 3.0, 2.0]);
        let res = guard(|| {
            let sb = weight.to_scoring_with_base(base);
            let rr = sb.reverse_complement().reverse_complement();
            let w_then_rc = lightmotif::pwm::WeightMatrix::from(sb.clone()).reverse_complement();
            let rc_then_w = lightmotif::pwm::WeightMatrix::from(sb.reverse_complement());
            (sb, rr, w_then_rc, rc_then_w)
        });
        match res {
            Err(p) => {
                fail(rep, &format!("c10.panic:{}", panic_site(&p)), format!("panic: {}", p), J::Null);
                return;
            }
            Ok((sb, rr, a1, a2)) => {
                rep.cover("check.involution_other_base");
                if if nan_class { !same_cells(rr.matrix(), sb.matrix()) } else { rr != sb } {
                    fail(rep, "c10.involution", format!("scoring matrix in base {}: rc(rc(x)) != x under ==", base), J::Null);
                    return;
                }
                for i in 0..w {
                    for s in 0..5 {
                        if !same_f32(a1.matrix()[i][s], a2.matrix()[i][s]) {
                            fail(rep, "c10.commutes", format!("base {}: WeightMatrix::from(x).rc()[{}][{}] = {} but WeightMatrix::from(x.rc()) has {}", base, i, s, a1.matrix()[i][s], a2.matrix()[i][s]), J::Null);
                            return;
                        }
                    }
                }
            }
        }
    }
    // frequency matrices built by hand (FrequencyMatrix::new accepts rows summing to one within a
    // tolerance: two-decimal rows summing to 0.99 / 1.00 / 1.01): whatever the constructor accepted
    // must reverse-complement without a second opinion
    {
        let mut dmf = DenseMatrix::<f32, _>::new(w);
        for i in 0..w {
            let target = *rng.pick(&[99i32, 100, 100, 101]);
            let a = rng.below(60) as i32;
            let b = rng.below((target - a).max(1) as usize) as i32;
            let c = rng.below((target - a - b).max(1) as usize) as i32;
            let d = target - a - b - c;
            let vals = [a, b, c, d];
            for j in 0..4 {
                dmf[i][j] = vals[j] as f32 / 100.0;
            }
            dmf[i][4] = 0.0;
        }
        if let Ok(Ok(fm)) = guard(|| lightmotif::pwm::FrequencyMatrix::<Dna>::new(dmf)) {
            rep.cover("check.hand_built_frequency_rows");
            match guard(|| {
                let r1 = fm.reverse_complement();
                let r2 = r1.reverse_complement();
                (r1, r2)
            }) {
                Err(p) => {
                    fail(rep, &format!("c10.panic:{}", panic_site(&p)), format!("panic in FrequencyMatrix::reverse_complement on a matrix the constructor accepted: {}", p), J::Null);
                    return;
                }
                Ok((r1, r2)) => {
                    if !same_cells(r2.matrix(), fm.matrix()) {
                        fail(rep, "c10.involution", "hand-built frequency matrix: rc(rc(x)) != x".into(), J::Null);
                        return;
                    }
                    for i in 0..w {
                        for s in 0..5 {
                            if !same_f32(r1.matrix()[i][s], fm.matrix()[w - 1 - i][COMP[s]]) {
                                fail(rep, "c10.definition", format!("hand-built frequency rc[{}][{}] = {}, original[{}][{}] = {}", i, s, r1.matrix()[i][s], w - 1 - i, COMP[s], fm.matrix()[w - 1 - i][COMP[s]]), J::Null);
                                return;
                            }
                        }
                    }
                }
            }
        }
    }
    // commutation with the conversions
    rep.cover("check.commutes");
    let res = guard(|| {
        let f2 = rcm.to_freq(pseudo);
        let w2 = f2.to_weight(bg.clone());
        let s2 = f2.to_scoring(bg.clone());
        let s3 = rweight.to_scoring();
        (f2, w2, s2, s3)
    });
    let (f2, w2, s2, s3) = match res {
        Ok(x) => x,
        Err(p) => {
            fail(rep, &format!("c10.panic:{}", panic_site(&p)), format!("panic: {}", p), J::Null);
            return;
        }
    };
    for i in 0..w {
        for s in 0..5 {
            for (name, x, y) in [
                ("to_freq(rc(counts)) vs rc(to_freq(counts))", f2.matrix()[i][s], rfreq.matrix()[i][s]),
                ("to_weight(rc) vs rc(to_weight)", w2.matrix()[i][s], rweight.matrix()[i][s]),
                ("to_scoring(rc) vs rc(to_scoring)", s2.matrix()[i][s], rscoring.matrix()[i][s]),
                ("rc(weight).to_scoring() vs rc(scoring)", s3.matrix()[i][s], rscoring.matrix()[i][s]),
            ] {
                if !close(x, y) {
                    fail(rep, "c10.commutes", format!("{}: cell [{}][{}]: {} vs {}", name, i, s, x, y), J::Null);
                    return;
                }
            }
        }
    }

    // mirrored scores, for the log-odds matrix and for an arbitrary matrix with finite wildcard column
    let arbitrary: ScoringMatrix<Dna> = {
        let kind = *rng.pick(&[MatKind::Finite, MatKind::SmallInt, MatKind::ZeroCounts, MatKind::FewValued]);
        let mut rows = gen_matrix(rng, 5, w, kind);
        if w >= 2 && rng.chance(0.12) {
            // a reverse-palindromic motif (row i is the complement of row M-1-i over the four
            // nucleotides, like GAATTC) whose wildcard column is NOT mirror-symmetric
            for i in 0..w / 2 {
                let src = rows[i].clone();
                for s_ in 0..4 {
                    rows[w - 1 - i][COMP[s_]] = src[s_];
                }
            }
            if w % 2 == 1 {
                let mid = w / 2;
                rows[mid][2] = rows[mid][0];
                rows[mid][3] = rows[mid][1];
            }
            for (i, r) in rows.iter_mut().enumerate() {
                r[4] = -0.5 - i as f32;
            }
            rep.cover("class.palindromic_with_asymmetric_wildcard");
        }
        if w >= 2 && rng.chance(0.1) {
            // a gapped or right-padded motif: positions whose five cells are exactly +0.0
            for _ in 0..rng.range(1, 2) {
                let i = if rng.chance(0.5) { w - 1 } else { rng.below(w) };
                for x in rows[i].iter_mut() {
                    *x = 0.0;
                }
            }
            rep.cover("class.all_zero_position");
        }
        crate::model::scoring::<Dna>(&rows)
    };
    let mirrored: Vec<&ScoringMatrix<Dna>> = if nan_class { vec![&arbitrary] } else { vec![&scoring, &arbitrary] };
    for pssm in mirrored {
        let rows = cells_f32(pssm.matrix());
        if rows.iter().any(|r| r[4].is_finite()) {
            rep.cover("class.finite_wildcard_column");
        }
        if rows.iter().any(|r| r[..4].iter().any(|x| *x == f32::NEG_INFINITY)) {
            rep.cover("class.neg_inf_cells");
        }
        let rcp = match guard(|| pssm.reverse_complement()) {
            Ok(x) => x,
            Err(p) => {
                fail(rep, &format!("c10.panic:{}", panic_site(&p)), format!("panic: {}", p), J::Null);
                return;
            }
        };
        let rc_rows = cells_f32(rcp.matrix());
        for i in 0..w {
            if !same_f32(rc_rows[i][4], rows[w - 1 - i][4]) {
                fail(rep, "c10.definition", format!("wildcard column: rc[{}][N] = {}, original[{}][N] = {}", i, rc_rows[i][4], w - 1 - i, rows[w - 1 - i][4]), J::Null);
                return;
            }
        }
        let l = rng.range(w, w + 200);
        let sk = *rng.pick(&[SeqKind::Uniform, SeqKind::Wild5, SeqKind::Skewed]);
        let seq = gen_seq(rng, 5, l, sk);
        if seq.contains(&4) {
            rep.cover("class.sequence_with_wildcards");
        }
        let rseq = rc_seq(&seq);
        let exact = exact_scores(&rows, &seq);
        let enc = encoded::<Dna>(&rseq);
        let mut st: StripedSequence<Dna, U32> = stripe_generic(&enc);
        st.configure(&rcp);
        let got = match guard(|| rcp.score(&st)) {
            Ok(x) => x,
            Err(p) => {
                fail(rep, &format!("c10.panic:{}", panic_site(&p)), format!("panic while scoring: {}", p), J::Null);
                return;
            }
        };
        rep.cover("check.mirrored_scores");
        for i in 0..exact.len() {
            let g = got[l - w - i] as f64;
            let (ex, abs) = exact[i];
            let ok = if ex == f64::NEG_INFINITY { g == f64::NEG_INFINITY } else { (g - ex).abs() <= tol(w, abs) };
            if !ok {
                fail(
                    rep,
                    "c10.mirror",
                    format!("rc(pssm) at position {} of rc(sequence) scores {}, pssm at position {} of the sequence scores {}", l - w - i, g, i, ex),
                    J::obj().set("sequence", J::s(fmt_seq_short::<Dna>(&seq))),
                );
                return;
            }
        }
        // the same mirror through the per-position entry point, on both strands, with the striped
        // sequences in any look-ahead state (none / built for a shorter motif / more than needed):
        // score_position indexes the sequence and does not need look-ahead rows
        {
            let fenc = encoded::<Dna>(&seq);
            let mut fwd: StripedSequence<Dna, U32> = stripe_generic(&fenc);
            let mut rev: StripedSequence<Dna, U32> = stripe_generic(&enc);
            for sq in [&mut fwd, &mut rev] {
                match rng.below(3) {
                    0 => rep.cover("score_position.no_lookahead_rows"),
                    1 if w >= 3 => {
                        sq.configure_wrap(rng.range(1, w - 2));
                        rep.cover("score_position.too_few_lookahead_rows");
                    }
                    _ => sq.configure_wrap(w - 1 + rng.range(0, 12)),
                }
            }
            let f_rows = fwd.matrix().rows() - fwd.wrap();
            for k in 0..12usize {
                let mut i = rng.below(exact.len());
                if k % 2 == 1 {
                    // a window that crosses a column boundary of the forward (or reverse) striping
                    let rws = if k % 4 == 1 { f_rows } else { rev.matrix().rows() - rev.wrap() };
                    let cand = (rng.below(32) + 1) * rws;
                    let back = rng.below(w.min(rws.max(1))) + 1;
                    if cand >= back {
                        let p = cand - back;
                        let p = if k % 4 == 1 { p } else { (l - w).wrapping_sub(p) };
                        if p < exact.len() {
                            i = p;
                            rep.cover("score_position.window_crosses_column");
                        }
                    }
                }
                let r = guard(|| (pssm.score_position(&fwd, i), rcp.score_position(&rev, l - w - i)));
                let (a, b) = match r {
                    Ok(x) => x,
                    Err(p) => {
                        fail(rep, &format!("c10.panic:{}", panic_site(&p)), format!("panic in score_position: {}", p), J::Null);
                        return;
                    }
                };
                let (ex, abs) = exact[i];
                let okv = |g: f32| if ex == f64::NEG_INFINITY { g == f32::NEG_INFINITY } else { ((g as f64) - ex).abs() <= tol(w, abs) };
                if !okv(a) || !okv(b) {
                    fail(
                        rep,
                        "c10.mirror",
                        format!(
                            "score_position: pssm at {} of the sequence gives {}, rc(pssm) at {} of rc(sequence) gives {}, exact {} (look-ahead rows: {} / {}, width {})",
                            i, a, l - w - i, b, ex, fwd.wrap(), rev.wrap(), w
                        ),
                        J::obj().set("sequence", J::s(fmt_seq_short::<Dna>(&seq))),
                    );
                    return;
                }
            }
            rep.cover("check.mirrored_score_position");
        }
    }
    if nan_class {
        let l = rng.range(w, w + 120);
        let seq = gen_seq(rng, 5, l, SeqKind::Uniform);
        let rseq = rc_seq(&seq);
        let mut fwd: StripedSequence<Dna, U32> = stripe_generic(&encoded::<Dna>(&seq));
        let mut rev: StripedSequence<Dna, U32> = stripe_generic(&encoded::<Dna>(&rseq));
        fwd.configure(&scoring);
        rev.configure(&rscoring);
        let same_kind = |a: f32, b: f32| (a.is_nan() && b.is_nan()) || a == b || close(a, b);
        match guard(|| {
            let f = scoring.score(&fwd).unstripe();
            let r = rscoring.score(&rev).unstripe();
            let fp: Vec<f32> = (0..=l - w).map(|i| scoring.score_position(&fwd, i)).collect();
            let rp: Vec<f32> = (0..=l - w).map(|i| rscoring.score_position(&rev, i)).collect();
            (f, r, fp, rp)
        }) {
            Err(p) => {
                fail(rep, &format!("c10.panic:{}", panic_site(&p)), format!("panic while scoring a matrix with NaN cells: {}", p), J::Null);
                return;
            }
            Ok((f, r, fp, rp)) => {
                rep.cover("check.mirrored_scores_with_nan_cells");
                for i in 0..=l - w {
                    let j = l - w - i;
                    if !same_kind(f[i], r[j]) || !same_kind(fp[i], rp[j]) || !same_kind(f[i], fp[i]) {
                        fail(
                            rep,
                            "c10.mirror",
                            format!("matrix with NaN cells (position without observations, no pseudocount): position {} scores {} (score_position {}), position {} of the opposite strand scores {} (score_position {})", i, f[i], fp[i], j, r[j], rp[j]),
                            J::obj().set("sequence", J::s(fmt_seq_short::<Dna>(&seq))),
                        );
                        return;
                    }
                }
            }
        }
    }
    // non-trivial: width >= 2 and non-palindromic
    if w >= 2 && rcm != cm {
        let mut d = Digest::new();
        for r in &counts {
            for &c in r {
                d.u(c as u64);
            }
        }
        d.u(pseudo.to_bits() as u64).u(a.to_bits() as u64);
        rep.nontrivial(d.get());
    }
    rep.sample(|| {
        J::obj()
            .set("case", J::UInt(case))
            .set("width", J::u(w))
            .set("pseudocount", J::f(pseudo as f64))
            .set("background", J::Arr(vec![J::f(a as f64), J::f(c as f64), J::f(a as f64), J::f(c as f64), J::f(0.0)]))
            .set("first_count_rows", J::Arr(counts.iter().take(3).map(|r| J::Arr(r.iter().map(|&c| J::UInt(c as u64)).collect())).collect()))
    });
}

pub fn run(cfg: &Config) -> Report {
    let n = cfg.n(10_000, 300_000) as u64;
    run_cases(cfg, n, |case, rng, rep| run_case(case, rng, rep))
}
