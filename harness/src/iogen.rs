//! Generators of well-formed motif files (JASPAR raw, JASPAR 2016, TRANSFAC, UniPROBE), the model of
//! what a reader must return for them, and a monitor-owned chunking `Read` (shared by C14 and C15).
use std::io::{BufRead, BufReader, Read};

use lightmotif::abc::{Alphabet, Dna, Protein, Symbol};

use crate::rng::Rng;

#[derive(Clone, Debug, PartialEq)]
pub struct Rec {
    pub id: Option<String>,
    pub accession: Option<String>,
    pub name: Option<String>,
    pub description: Option<String>,
    /// width x K cells
    pub cells: Vec<Vec<f64>>,
}

#[derive(Clone, Copy, Debug, PartialEq, Eq)]
pub enum Format {
    Jaspar,
    Jaspar16,
    Transfac,
    Uniprobe,
}

impl Format {
    pub fn name(self) -> &'static str {
        match self {
            Format::Jaspar => "jaspar",
            Format::Jaspar16 => "jaspar16",
            Format::Transfac => "transfac",
            Format::Uniprobe => "uniprobe",
        }
    }
}

pub const FORMATS: [Format; 4] = [Format::Jaspar, Format::Jaspar16, Format::Transfac, Format::Uniprobe];

// --- chunked reader ----------------------------------------------------------------------------

#[derive(Clone, Copy, Debug)]
pub struct Schedule {
    pub capacity: usize,
    /// maximum number of bytes handed out per read (0 = as many as asked)
    pub max_chunk: usize,
    /// probability of an injected ErrorKind::Interrupted before a read
    pub interrupt: f64,
    pub seed: u64,
}

pub struct Chunked<'a> {
    data: &'a [u8],
    pos: usize,
    rng: Rng,
    max_chunk: usize,
    interrupt: f64,
    last_interrupted: bool,
    pub eof_reads: std::rc::Rc<std::cell::Cell<u64>>,
    pub reads: std::rc::Rc<std::cell::Cell<u64>>,
}

pub const EOF_POLL_LIMIT: u64 = 10_000;

impl<'a> Read for Chunked<'a> {
    fn read(&mut self, buf: &mut [u8]) -> std::io::Result<usize> {
        self.reads.set(self.reads.get() + 1);
        if self.interrupt > 0.0 && !self.last_interrupted && self.rng.chance(self.interrupt) {
            self.last_interrupted = true;
            return Err(std::io::Error::new(std::io::ErrorKind::Interrupted, "injected interrupt"));
        }
        self.last_interrupted = false;
        if self.pos >= self.data.len() {
            self.eof_reads.set(self.eof_reads.get() + 1);
            if self.eof_reads.get() > EOF_POLL_LIMIT {
                // break a livelocked consumer out of its loop; the monitor reads the counter
                return Err(std::io::Error::new(std::io::ErrorKind::Other, "verif: end of input polled more than 10000 times"));
            }
            return Ok(0);
        }
        let mut n = buf.len().min(self.data.len() - self.pos);
        if self.max_chunk > 0 {
            n = n.min(1 + self.rng.below(self.max_chunk));
        }
        buf[..n].copy_from_slice(&self.data[self.pos..self.pos + n]);
        self.pos += n;
        Ok(n)
    }
}

pub struct Counters {
    pub eof_reads: std::rc::Rc<std::cell::Cell<u64>>,
    pub reads: std::rc::Rc<std::cell::Cell<u64>>,
}

pub fn chunked<'a>(data: &'a [u8], s: &Schedule) -> (BufReader<Chunked<'a>>, Counters) {
    let eof = std::rc::Rc::new(std::cell::Cell::new(0));
    let reads = std::rc::Rc::new(std::cell::Cell::new(0));
    let c = Chunked {
        data,
        pos: 0,
        rng: Rng::new(s.seed),
        max_chunk: s.max_chunk,
        interrupt: s.interrupt,
        last_interrupted: false,
        eof_reads: eof.clone(),
        reads: reads.clone(),
    };
    (BufReader::with_capacity(s.capacity.max(1), c), Counters { eof_reads: eof, reads })
}

pub fn schedules(rng: &mut Rng, len: usize) -> Vec<Schedule> {
    let mut v = vec![
        Schedule { capacity: 1, max_chunk: 0, interrupt: 0.0, seed: rng.next_u64() },
        Schedule { capacity: 2, max_chunk: 1, interrupt: 0.0, seed: rng.next_u64() },
        Schedule { capacity: 3, max_chunk: 5, interrupt: 0.0, seed: rng.next_u64() },
        Schedule { capacity: 7, max_chunk: 3, interrupt: 0.2, seed: rng.next_u64() },
        Schedule { capacity: 64, max_chunk: 100, interrupt: 0.1, seed: rng.next_u64() },
        Schedule { capacity: 4096, max_chunk: 5000, interrupt: 0.0, seed: rng.next_u64() },
        Schedule { capacity: len.max(1), max_chunk: 0, interrupt: 0.0, seed: rng.next_u64() },
    ];
    v.push(Schedule { capacity: 1 + rng.below(300), max_chunk: 1 + rng.below(400), interrupt: 0.05, seed: rng.next_u64() });
    v
}

// --- text generators -----------------------------------------------------------------------------

fn word(rng: &mut Rng, min: usize, max: usize) -> String {
    const CH: &[u8] = b"ABCDEFGHIJKLMNOPQRSTUVWXYZabcdefghijklmnopqrstuvwxyz0123456789._-$:";
    let n = rng.range(min, max);
    (0..n).map(|_| CH[rng.below(CH.len())] as char).collect()
}

fn phrase(rng: &mut Rng) -> String {
    let n = rng.range(1, 5);
    let mut parts: Vec<String> = (0..n).map(|_| word(rng, 1, 9)).collect();
    if rng.chance(0.15) {
        parts.push("caf\u{e9}-\u{3b2}".to_string());
    }
    if rng.chance(0.1) {
        parts.push("(x;y)".to_string());
    }
    if rng.chance(0.08) {
        // free text may contain, or end in, the characters of a record terminator
        parts.push((*rng.pick(&["MyoD//E12//", "a//b", "//", "http://x.org/", "XX", "P0"])).to_string());
    }
    parts.join(" ")
}

fn gap(rng: &mut Rng) -> String {
    match rng.below(4) {
        0 => " ".to_string(),
        1 => "\t".to_string(),
        2 => "  ".to_string(),
        _ => " ".repeat(rng.range(1, 6)),
    }
}

fn count(rng: &mut Rng) -> u32 {
    match rng.below(6) {
        0 => 0,
        1 => rng.below(10) as u32,
        2 => rng.below(100_000) as u32,
        3 => u32::MAX - rng.below(3) as u32,
        4 => (1u32 << 24) + 1 + rng.below(1000) as u32,
        _ => rng.below(4_000_000_000usize) as u32,
    }
}

pub fn symbols_of<A: Alphabet>() -> Vec<(char, usize)> {
    A::symbols().iter().map(|s| (s.as_char(), s.as_index())).collect()
}

/// One generated file: its bytes and the records a reader must return.
pub struct GenFile {
    pub format: Format,
    pub protein: bool,
    pub text: Vec<u8>,
    pub records: Vec<Rec>,
    pub blank_sep: bool,
}

pub fn gen_file(rng: &mut Rng, format: Format, protein: bool, n_records: usize) -> GenFile {
    let syms: Vec<(char, usize)> = if protein { symbols_of::<Protein>() } else { symbols_of::<Dna>() };
    let k = syms.len();
    let mut text = String::new();
    let mut records = Vec::new();
    if format == Format::Transfac && rng.chance(0.5) {
        text.push_str(&format!("VV  {}\nXX\n//\n", phrase(rng)));
    }
    // a third of the JASPAR / TRANSFAC files separate their records by blank (or whitespace-only)
    // lines, as the JASPAR bulk downloads do, and may end in some
    let blank_sep = format != Format::Uniprobe && rng.chance(0.33);
    for r in 0..n_records {
        if blank_sep && r > 0 && rng.chance(0.7) {
            for _ in 0..rng.range(1, 2) {
                text.push_str(*rng.pick(&["\n", "\n", " \n", "\t\n"]));
            }
        }
        let w = if rng.chance(0.03) { rng.range(99, 135) } else if rng.chance(0.1) { rng.range(30, 40) } else { rng.range(1, 16) };
        let mut id = word(rng, 1, 12);
        if format != Format::Uniprobe && rng.chance(0.04) {
            // identifiers are delimited by ASCII white space only: NBSP, ideographic space and accented
            // letters belong to the identifier
            id.push_str(*rng.pick(&["\u{a0}5", "\u{e9}", "\u{3000}x", "\u{2009}1"]));
        }
        let desc = if rng.chance(0.7) { Some(phrase(rng)) } else { None };
        match format {
            Format::Jaspar => {
                // rows in the fixed order A C G T
                let order: Vec<usize> = vec![0, 1, 3, 2];
                let mut cells = vec![vec![0f64; k]; w];
                text.push('>');
                text.push_str(&id);
                if let Some(d) = &desc {
                    text.push_str(if rng.chance(0.5) { " " } else { "\t" });
                    text.push_str(d);
                }
                text.push('\n');
                for &col in &order {
                    if rng.chance(0.5) {
                        text.push_str(&" ".repeat(rng.range(1, 4)));
                    }
                    for i in 0..w {
                        let c = count(rng);
                        cells[i][col] = c as f64;
                        if i > 0 {
                            text.push_str(&gap(rng));
                        }
                        text.push_str(&c.to_string());
                    }
                    text.push('\n');
                }
                records.push(Rec { id: Some(id), accession: None, name: None, description: desc, cells });
            }
            Format::Jaspar16 => {
                let mut rows: Vec<(char, usize)> = syms[..k - 1].to_vec();
                if rng.chance(0.2) {
                    rows.push(syms[k - 1]);
                }
                if rng.chance(0.7) {
                    rng.shuffle(&mut rows);
                }
                let mut cells = vec![vec![0f64; k]; w];
                text.push('>');
                text.push_str(&id);
                if let Some(d) = &desc {
                    text.push_str(if rng.chance(0.5) { " " } else { "\t" });
                    text.push_str(d);
                }
                text.push('\n');
                for &(ch, col) in &rows {
                    text.push(ch);
                    text.push_str(&gap(rng));
                    text.push('[');
                    if rng.chance(0.7) {
                        text.push_str(&gap(rng));
                    }
                    for i in 0..w {
                        let c = count(rng);
                        cells[i][col] = c as f64;
                        if i > 0 {
                            text.push_str(&gap(rng));
                        }
                        text.push_str(&c.to_string());
                    }
                    if rng.chance(0.7) {
                        text.push_str(&gap(rng));
                    }
                    text.push(']');
                    if rng.chance(0.2) {
                        text.push(' ');
                    }
                    text.push('\n');
                }
                records.push(Rec { id: Some(id), accession: None, name: None, description: desc, cells });
            }
            Format::Transfac => {
                let acc = if rng.chance(0.7) { Some(word(rng, 3, 10)) } else { None };
                let tid = if rng.chance(0.7) { Some(format!("V${}", word(rng, 2, 8))) } else { None };
                let name = if rng.chance(0.5) { Some(phrase(rng)) } else { None };
                let sep = if rng.chance(0.8) { "  " } else { " " };
                let xx = |t: &mut String, rng: &mut Rng| {
                    if rng.chance(0.7) {
                        t.push_str("XX\n");
                    }
                };
                if let Some(a) = &acc {
                    text.push_str(&format!("AC{}{}\n", sep, a));
                    xx(&mut text, rng);
                }
                if let Some(a) = &tid {
                    text.push_str(&format!("ID{}{}\n", sep, a));
                    xx(&mut text, rng);
                }
                if rng.chance(0.3) {
                    text.push_str(&format!("DT  {:02}.{:02}.{} (created); {}.\n", rng.range(1, 28), rng.range(1, 12), rng.range(1990, 2024), word(rng, 2, 5)));
                    if rng.chance(0.5) {
                        text.push_str(&format!("DT  {:02}.{:02}.{} (updated); {}.\n", rng.range(1, 28), rng.range(1, 12), rng.range(1990, 2024), word(rng, 2, 5)));
                    }
                    text.push_str("CO  Copyright (C), Biobase GmbH.\n");
                    xx(&mut text, rng);
                }
                if let Some(a) = &name {
                    text.push_str(&format!("NA{}{}\n", sep, a));
                    xx(&mut text, rng);
                }
                if let Some(a) = &desc {
                    text.push_str(&format!("DE{}{}\n", sep, a));
                    xx(&mut text, rng);
                }
                if rng.chance(0.3) {
                    text.push_str(&format!("BF  T{:05}; {}; Species: {}.\n", rng.below(99999), word(rng, 2, 6), phrase(rng)));
                    xx(&mut text, rng);
                }
                let mut cols: Vec<(char, usize)> = syms[..k - 1].to_vec();
                if rng.chance(0.5) {
                    rng.shuffle(&mut cols);
                }
                if rng.chance(0.15) && cols.len() > 2 {
                    cols.truncate(cols.len() - 1);
                }
                text.push_str(if rng.chance(0.7) { "P0" } else { "PO" });
                for &(ch, _) in &cols {
                    text.push_str(&gap(rng));
                    text.push(ch);
                }
                text.push('\n');
                let float_counts = rng.chance(0.3);
                let mut cells = vec![vec![0f64; k]; w];
                let first_row = if rng.chance(0.2) { 0 } else { 1 };
                for i in 0..w {
                    text.push_str(&format!("{:02}", i + first_row));
                    for &(_, col) in &cols {
                        text.push_str(&gap(rng));
                        let c: f64 = if float_counts {
                            (rng.below(4000) as f64) * 0.25
                        } else {
                            rng.below(1 << 24) as f64
                        };
                        let mut c = c;
                        let mut written = if float_counts { format!("{:.2}", c) } else { format!("{}", c as u64) };
                        if float_counts && rng.chance(0.2) {
                            // scientific notation, with and without a decimal point in the mantissa
                            // (what Python's repr and C's %g print); values exact in f32
                            let mant = rng.range(1, 99) as f64;
                            let (e, txt) = match rng.below(5) {
                                0 => (1i32, format!("{}e1", mant)),
                                1 => (3, format!("{}E3", mant)),
                                2 => (-1, format!("{}e-1", mant * 5.0)),
                                3 => (2, format!("{:.1}e2", mant / 2.0)),
                                _ => (0, format!("{}e+0", mant)),
                            };
                            c = match e {
                                1 => mant * 10.0,
                                3 => mant * 1000.0,
                                -1 => mant * 0.5,
                                2 => mant * 50.0,
                                _ => mant,
                            };
                            written = txt;
                        }
                        cells[i][col] = c;
                        text.push_str(&written);
                    }
                    if rng.chance(0.7) {
                        text.push_str(&gap(rng));
                        text.push(*rng.pick(&['A', 'C', 'G', 'T', 'N', 'W', 'y', 'r']));
                    }
                    text.push('\n');
                }
                text.push_str("XX\n");
                if rng.chance(0.3) {
                    text.push_str(&format!("BS  {}; R{:05}; 1; {};; p.\n", word(rng, 8, 20), rng.below(99999), rng.range(5, 30)));
                    text.push_str("XX\n");
                }
                if rng.chance(0.3) {
                    for _ in 0..rng.range(1, 3) {
                        text.push_str(&format!("CC  {}\n", phrase(rng)));
                    }
                    text.push_str("XX\n");
                }
                if rng.chance(0.25) {
                    text.push_str(&format!("RN  [{}]; RE{:07}.\n", rng.range(1, 9), rng.below(9999999)));
                    text.push_str(&format!("RX  PUBMED: {}.\n", rng.below(99999999)));
                    text.push_str(&format!("RA  {}\n", phrase(rng)));
                    text.push_str(&format!("RT  {}\n", phrase(rng)));
                    text.push_str(&format!("RL  {}\n", phrase(rng)));
                    text.push_str("XX\n");
                }
                text.push_str("//\n");
                records.push(Rec { id: tid, accession: acc, name, description: desc, cells });
            }
            Format::Uniprobe => {
                let id_line = if rng.chance(0.5) { format!("{} {}", id, word(rng, 3, 9)) } else { id.clone() };
                text.push_str(&id_line);
                text.push('\n');
                // real UniPROBE downloads put an empty line between the header and the matrix
                let inner_blank = rng.chance(0.25);
                if inner_blank && rng.chance(0.7) {
                    text.push_str(*rng.pick(&["\n", " \n", "\n\n"]));
                }
                let mut rows: Vec<(char, usize)> = syms[..k - 1].to_vec();
                if rng.chance(0.5) {
                    rng.shuffle(&mut rows);
                }
                // frequencies: each position sums to one (6 decimals)
                let mut freqs = vec![vec![0f64; k]; w];
                let mut strs = vec![vec![String::new(); k]; w];
                for i in 0..w {
                    let raw: Vec<f64> = (0..k - 1).map(|_| 0.01 + rng.f64()).collect();
                    let tot: f64 = raw.iter().sum();
                    let shortest = (w + i) % 3 == 0;
                    for (j, x) in raw.iter().enumerate() {
                        // six decimals, or the shortest text that round-trips the f32 (8-9 digits)
                        let s = if shortest { format!("{}", (x / tot) as f32) } else { format!("{:.6}", x / tot) };
                        freqs[i][j] = s.parse::<f32>().unwrap() as f64;
                        strs[i][j] = s;
                    }
                }
                for (ri, &(ch, col)) in rows.iter().enumerate() {
                    if inner_blank && ri > 0 && rng.chance(0.2) {
                        text.push('\n');
                    }
                    text.push(ch);
                    text.push(':');
                    for i in 0..w {
                        text.push('\t');
                        text.push_str(&strs[i][col]);
                    }
                    text.push('\n');
                }
                if r + 1 < n_records || rng.chance(0.5) {
                    for _ in 0..rng.below(3) {
                        text.push('\n');
                    }
                }
                records.push(Rec { id: Some(id_line.trim().to_string()), accession: None, name: None, description: None, cells: freqs });
            }
        }
    }
    if blank_sep && rng.chance(0.5) {
        text.push_str(*rng.pick(&["\n", "\n\n", " \n"]));
    }
    GenFile { format, protein, text: text.into_bytes(), records, blank_sep }
}

// --- reading through the library -----------------------------------------------------------------

#[derive(Debug)]
pub enum Outcome {
    /// records, in order, followed by end of input
    Records(Vec<Rec>),
    /// the reader returned an error after this many records
    Error(usize, String),
    /// more records than bytes: the consumer would never stop
    Runaway(usize),
}

fn cells_u32<A: Alphabet>(m: &lightmotif::pwm::CountMatrix<A>) -> Vec<Vec<f64>> {
    (0..m.matrix().rows()).map(|i| m.matrix()[i].iter().map(|&x| x as f64).collect()).collect()
}

fn drive<I, R>(it: I, conv: impl Fn(R) -> Rec, limit: usize) -> Outcome
where
    I: Iterator<Item = Result<R, lightmotif_io::error::Error>>,
{
    let mut out = Vec::new();
    for item in it {
        match item {
            Ok(r) => {
                out.push(conv(r));
                if out.len() > limit {
                    return Outcome::Runaway(out.len());
                }
            }
            Err(e) => return Outcome::Error(out.len(), format!("{}", e)),
        }
    }
    Outcome::Records(out)
}

/// Read `data` with the reader of `format` through any BufRead, stopping at the first error or at
/// end of input, after at most (input length + 2) records.
pub fn read_all<B: BufRead>(format: Format, protein: bool, b: B, input_len: usize) -> Outcome {
    let limit = input_len + 2;
    match (format, protein) {
        (Format::Jaspar, _) => drive(
            lightmotif_io::jaspar::read(b),
            |r| Rec { id: Some(r.id().to_string()), accession: None, name: None, description: r.description().map(String::from), cells: cells_u32(r.matrix()) },
            limit,
        ),
        (Format::Jaspar16, false) => drive(
            lightmotif_io::jaspar16::read::<_, Dna>(b),
            |r| Rec { id: Some(r.id().to_string()), accession: None, name: None, description: r.description().map(String::from), cells: cells_u32(r.matrix()) },
            limit,
        ),
        (Format::Jaspar16, true) => drive(
            lightmotif_io::jaspar16::read::<_, Protein>(b),
            |r| Rec { id: Some(r.id().to_string()), accession: None, name: None, description: r.description().map(String::from), cells: cells_u32(r.matrix()) },
            limit,
        ),
        (Format::Transfac, false) => drive(lightmotif_io::transfac::read::<_, Dna>(b), |r| transfac_rec(&r), limit),
        (Format::Transfac, true) => drive(lightmotif_io::transfac::read::<_, Protein>(b), |r| transfac_rec(&r), limit),
        (Format::Uniprobe, false) => drive(
            lightmotif_io::uniprobe::read::<_, Dna>(b),
            |r| Rec { id: Some(r.id().to_string()), accession: None, name: None, description: None, cells: (0..r.matrix().matrix().rows()).map(|i| r.matrix().matrix()[i].iter().map(|&x| x as f64).collect()).collect() },
            limit,
        ),
        (Format::Uniprobe, true) => drive(
            lightmotif_io::uniprobe::read::<_, Protein>(b),
            |r| Rec { id: Some(r.id().to_string()), accession: None, name: None, description: None, cells: (0..r.matrix().matrix().rows()).map(|i| r.matrix().matrix()[i].iter().map(|&x| x as f64).collect()).collect() },
            limit,
        ),
    }
}

fn transfac_rec<A: Alphabet>(r: &lightmotif_io::transfac::Record<A>) -> Rec {
    Rec {
        id: r.id().map(String::from),
        accession: r.accession().map(String::from),
        name: r.name().map(String::from),
        description: r.description().map(String::from),
        cells: match r.data() {
            Some(d) => (0..d.rows()).map(|i| d[i].iter().map(|&x| x as f64).collect()).collect(),
            None => Vec::new(),
        },
    }
}

/// first difference between what was read and what the model expects
pub fn diff_records(got: &[Rec], expect: &[Rec], float_cells: bool) -> Option<String> {
    if got.len() != expect.len() {
        return Some(format!("{} records read, {} written", got.len(), expect.len()));
    }
    for (n, (g, e)) in got.iter().zip(expect).enumerate() {
        if g.id != e.id {
            return Some(format!("record {}: id {:?}, written {:?}", n, g.id, e.id));
        }
        if g.accession != e.accession {
            return Some(format!("record {}: accession {:?}, written {:?}", n, g.accession, e.accession));
        }
        if g.name != e.name {
            return Some(format!("record {}: name {:?}, written {:?}", n, g.name, e.name));
        }
        if g.description != e.description {
            return Some(format!("record {}: description {:?}, written {:?}", n, g.description, e.description));
        }
        if g.cells.len() != e.cells.len() {
            return Some(format!("record {} ({:?}): {} matrix rows, written {}", n, e.id, g.cells.len(), e.cells.len()));
        }
        for i in 0..g.cells.len() {
            if g.cells[i].len() != e.cells[i].len() {
                return Some(format!("record {}: row {} has {} columns, expected {}", n, i, g.cells[i].len(), e.cells[i].len()));
            }
            for j in 0..g.cells[i].len() {
                let (a, b) = (g.cells[i][j], e.cells[i][j]);
                // float cells: the model holds the nearest f32 of the decimal text, which is what a
                // correctly rounding parser returns (exact comparison; NaN never occurs here)
                let _ = float_cells;
                let same = a == b;
                if !same {
                    return Some(format!("record {} ({:?}): matrix entry (position {}, symbol column {}) = {}, written {}", n, e.id, i, j, a, b));
                }
            }
        }
    }
    None
}
