mod c01;
mod c02;
mod c03;
mod c04;
mod c05;
mod c07;
mod c08;
mod c09;
mod c10;
mod c11;
mod c12;
mod c14;
mod c15;
mod c16;
mod iogen;
mod iowide;
mod distmodel;
mod c19;
mod common;
mod json;
mod memsafe;
mod model;
mod rng;
mod scanhist;
mod tfm_ref;

use common::*;

fn usage() -> ! {
    eprintln!("usage: lmverif <PROPERTY> --tier quick|thorough --seed N --out DIR [--threads N] [--only CASE] [--scale X] [key=value ...]");
    std::process::exit(2)
}

fn main() {
    let args: Vec<String> = std::env::args().skip(1).collect();
    if args.is_empty() {
        usage();
    }
    let mut cfg = Config {
        prop: args[0].clone(),
        tier: Tier::Quick,
        seed: 0,
        threads: std::thread::available_parallelism().map(|n| n.get()).unwrap_or(4),
        only: None,
        out: std::path::PathBuf::from("."),
        scale: 1.0,
        extra: Vec::new(),
    };
    let mut i = 1;
    while i < args.len() {
        let a = &args[i];
        let mut val = || {
            i += 1;
            args.get(i).cloned().unwrap_or_else(|| usage())
        };
        match a.as_str() {
            "--tier" => {
                cfg.tier = match val().as_str() {
                    "quick" => Tier::Quick,
                    "thorough" => Tier::Thorough,
                    _ => usage(),
                }
            }
            "--seed" => cfg.seed = val().parse().unwrap_or_else(|_| usage()),
            "--threads" => cfg.threads = val().parse().unwrap_or_else(|_| usage()),
            "--only" => cfg.only = Some(val().parse().unwrap_or_else(|_| usage())),
            "--out" => cfg.out = val().into(),
            "--scale" => cfg.scale = val().parse().unwrap_or_else(|_| usage()),
            other if other.contains('=') => cfg.extra.push(other.to_string()),
            _ => usage(),
        }
        i += 1;
    }
    install_panic_hook();
    let t0 = std::time::Instant::now();
    let (rep, rule, required): (Report, &str, &[&str]) = match cfg.prop.as_str() {
        "C01" => (c01::run(&cfg), c01::RULE, c01::REQUIRED),
        "C02" => (c02::run(&cfg), c02::RULE, c02::REQUIRED),
        "C03" => (c03::run(&cfg), c03::RULE, c03::REQUIRED),
        "C04" => (c04::run(&cfg), c04::RULE, c04::REQUIRED),
        "C05" => (c05::run(&cfg), c05::RULE, c05::REQUIRED),
        "C06" => (memsafe::run(&cfg), memsafe::RULE, memsafe::REQUIRED),
        "C07" => (c07::run(&cfg), c07::RULE, c07::REQUIRED),
        "C08" => (c08::run(&cfg), c08::RULE, c08::REQUIRED),
        "C09" => (c09::run(&cfg), c09::RULE, c09::REQUIRED),
        "C10" => (c10::run(&cfg), c10::RULE, c10::REQUIRED),
        "C11" => (c11::run(&cfg), c11::RULE, c11::REQUIRED),
        "C12" => (c12::run12(&cfg), c12::RULE12, c12::REQUIRED12),
        "C13" => (c12::run13(&cfg), c12::RULE13, c12::REQUIRED13),
        "C14" => (c14::run(&cfg), c14::RULE, c14::REQUIRED),
        "C15" => (c15::run(&cfg), c15::RULE, c15::REQUIRED),
        "C16" => (c16::run(&cfg), c16::RULE, c16::REQUIRED),
        "C19" => (c19::run(&cfg), c19::RULE, c19::REQUIRED),
        _ => usage(),
    };
    let notes = json::J::obj().set("harness_wall_s", json::J::f(t0.elapsed().as_secs_f64()));
    write_summary(&cfg, &rep, rule, required, notes);
    eprintln!(
        "{}: {} evaluations, {} distinct non-trivial, {} violation kinds, {:.1}s",
        cfg.prop,
        rep.evaluations,
        rep.digests.len(),
        rep.kinds.len(),
        t0.elapsed().as_secs_f64()
    );
}
