//! Minimal JSON value + serializer (no external dependency, usable under Miri).
use std::collections::BTreeMap;
use std::fmt::Write;

#[derive(Clone, Debug)]
pub enum J {
    Null,
    Bool(bool),
    Int(i64),
    UInt(u64),
    Num(f64),
    Str(String),
    Arr(Vec<J>),
    Obj(Vec<(String, J)>),
}

impl J {
    pub fn obj() -> J {
        J::Obj(Vec::new())
    }
    pub fn set(mut self, k: &str, v: J) -> J {
        if let J::Obj(ref mut m) = self {
            m.push((k.to_string(), v));
        }
        self
    }
    pub fn s(x: impl Into<String>) -> J {
        J::Str(x.into())
    }
    pub fn u(x: usize) -> J {
        J::UInt(x as u64)
    }
    pub fn f(x: f64) -> J {
        J::Num(x)
    }
    pub fn arr<T, F: Fn(&T) -> J>(xs: &[T], f: F) -> J {
        J::Arr(xs.iter().map(f).collect())
    }
    pub fn from_counts(m: &BTreeMap<String, u64>) -> J {
        J::Obj(m.iter().map(|(k, v)| (k.clone(), J::UInt(*v))).collect())
    }
    pub fn to_string(&self) -> String {
        let mut s = String::new();
        self.write(&mut s);
        s
    }
    fn write(&self, out: &mut String) {
        match self {
            J::Null => out.push_str("null"),
            J::Bool(b) => out.push_str(if *b { "true" } else { "false" }),
            J::Int(i) => {
                let _ = write!(out, "{}", i);
            }
            J::UInt(i) => {
                let _ = write!(out, "{}", i);
            }
            J::Num(x) => {
                if x.is_finite() {
                    let _ = write!(out, "{:e}", x);
                } else if x.is_nan() {
                    out.push_str("\"NaN\"");
                } else if *x > 0.0 {
                    out.push_str("\"inf\"");
                } else {
                    out.push_str("\"-inf\"");
                }
            }
            J::Str(s) => {
                out.push('"');
                for c in s.chars() {
                    match c {
                        '"' => out.push_str("\\\""),
                        '\\' => out.push_str("\\\\"),
                        '\n' => out.push_str("\\n"),
                        '\r' => out.push_str("\\r"),
                        '\t' => out.push_str("\\t"),
                        c if (c as u32) < 0x20 => {
                            let _ = write!(out, "\\u{:04x}", c as u32);
                        }
                        c => out.push(c),
                    }
                }
                out.push('"');
            }
            J::Arr(xs) => {
                out.push('[');
                for (i, x) in xs.iter().enumerate() {
                    if i > 0 {
                        out.push(',');
                    }
                    x.write(out);
                }
                out.push(']');
            }
            J::Obj(m) => {
                out.push('{');
                for (i, (k, v)) in m.iter().enumerate() {
                    if i > 0 {
                        out.push(',');
                    }
                    J::Str(k.clone()).write(out);
                    out.push(':');
                    v.write(out);
                }
                out.push('}');
            }
        }
    }
}
