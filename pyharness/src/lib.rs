//! Python extension used by the C17 / C18 monitors: it contains the module built from the current
//! tree of /repo/lightmotif-py (`lmverif_py.lib`, registered by the scripts as `lightmotif.lib`),
//! plus three monitor helpers living in the SAME binary (so that the thread-local dispatch override
//! of the `verif-hooks` feature is shared with the library code):
//!   force_backend(name | None), dispatch_counts(), buffer_info(obj)
//! and one reference route that does NOT go through the bindings:
//!   core_meme_score(rows, background, pvalue) = the core library's
//!   ScoringMatrix::<Dna>::to_score_distribution().score(pvalue) for the same f32 cells
use pyo3::exceptions::PyValueError;
use pyo3::ffi;
use pyo3::prelude::*;
use pyo3::types::PyModule;

use lightmotif::pli::dispatch::Dispatch;

#[pyfunction]
#[pyo3(signature = (name=None))]
fn force_backend(name: Option<&str>) -> PyResult<()> {
    let b = match name {
        None => None,
        Some("generic") => Some(Dispatch::Generic),
        Some("sse2") => Some(Dispatch::Sse2),
        Some("avx2") => Some(Dispatch::Avx2),
        Some(other) => return Err(PyValueError::new_err(format!("unknown backend {}", other))),
    };
    lightmotif::pli::dispatch::verif_force_backend(b);
    Ok(())
}

#[pyfunction]
fn dispatch_counts() -> (u64, u64, u64) {
    let c = lightmotif::pli::dispatch::verif_dispatch_counts();
    (c[0], c[1], c[2])
}

/// (address, len, readonly, itemsize, format, ndim, shape, strides) of the buffer exported by `obj`,
/// obtained with a fresh PyObject_GetBuffer(PyBUF_FULL_RO) and released at once.
#[pyfunction]
fn buffer_info(obj: &Bound<PyAny>) -> PyResult<(usize, isize, bool, isize, Option<String>, i32, Vec<isize>, Vec<isize>)> {
    unsafe {
        let mut view: ffi::Py_buffer = std::mem::zeroed();
        if ffi::PyObject_GetBuffer(obj.as_ptr(), &mut view, ffi::PyBUF_FULL_RO) != 0 {
            return Err(PyErr::fetch(obj.py()));
        }
        let ndim = view.ndim;
        let mut shape = Vec::new();
        let mut strides = Vec::new();
        for i in 0..ndim as isize {
            if !view.shape.is_null() {
                shape.push(*view.shape.offset(i));
            }
            if !view.strides.is_null() {
                strides.push(*view.strides.offset(i));
            }
        }
        let format = if view.format.is_null() {
            None
        } else {
            Some(std::ffi::CStr::from_ptr(view.format).to_string_lossy().to_string())
        };
        let r = (view.buf as usize, view.len, view.readonly != 0, view.itemsize, format, ndim, shape, strides);
        ffi::PyBuffer_Release(&mut view);
        Ok(r)
    }
}

/// What the core library answers for `score(pvalue)` (MEME method) on a DNA scoring matrix with
/// exactly these f32 cells (symbol order A C T G N) and this background: the bindings are a thin
/// wrapper over the same call and must return the same number for the same double-precision p-value.
#[pyfunction]
fn core_meme_score(rows: Vec<Vec<f32>>, background: Vec<f32>, pvalue: f64) -> PyResult<f64> {
    use lightmotif::abc::{Background, Dna};
    use lightmotif::dense::DenseMatrix;
    use lightmotif::pwm::ScoringMatrix;
    if background.len() != 5 || rows.iter().any(|r| r.len() != 5) {
        return Err(PyValueError::new_err("expected 5 columns"));
    }
    let mut bg = [0f32; 5];
    bg.copy_from_slice(&background);
    let bg = Background::<Dna>::new(bg).map_err(|_| PyValueError::new_err("invalid background"))?;
    let mut m = DenseMatrix::<f32, lightmotif::num::U5>::new(rows.len());
    for (i, r) in rows.iter().enumerate() {
        for j in 0..5 {
            m[i][j] = r[j];
        }
    }
    let pssm = ScoringMatrix::<Dna>::new(bg, m);
    Ok(pssm.to_score_distribution().score(pvalue) as f64)
}

#[pymodule]
fn lmverif_py(py: Python<'_>, m: &Bound<PyModule>) -> PyResult<()> {
    let lib = PyModule::new_bound(py, "lightmotif.lib")?;
    lightmotif_py::init(py, &lib)?;
    m.add("lib", lib)?;
    m.add_function(wrap_pyfunction!(force_backend, m)?)?;
    m.add_function(wrap_pyfunction!(dispatch_counts, m)?)?;
    m.add_function(wrap_pyfunction!(buffer_info, m)?)?;
    m.add_function(wrap_pyfunction!(core_meme_score, m)?)?;
    Ok(())
}
