"""Plans that need more than the generic 'run the harness' recipe: C06 (memory checkers), C17/C18 (Python)."""
import concurrent.futures
import json
import os
import re
import shutil
import subprocess
import time


# --------------------------------------------------------------------------------------
# C06: sharded runs under AddressSanitizer / valgrind memcheck / Miri / dev-profile assertions


def _first_repo_frame(text):
    """first stack frame that lies inside the library (function name, line numbers stripped)"""
    for line in text.splitlines():
        m = re.search(r"#\d+ 0x[0-9a-f]+ in (.+?) (/repo/\S+?):\d+", line)
        if m:
            fn = m.group(1)
            fn = re.sub(r" \(\.llvm\.\d+\)", "", fn)
            fn = re.sub(r"::h[0-9a-f]{16}$", "", fn)
            fn = fn.split("::<")[0].strip("<>")
            fn = fn.split(" as ")[0]
            return "%s@%s" % (fn.replace(" ", ""), m.group(2).replace("/repo/", ""))
        m = re.search(r"(?:at|by) 0x[0-9A-F]+: (\S+) \((\S+?\.rs):\d+\)", line)
        if m and "lightmotif" in m.group(1):
            fn = re.sub(r"::h[0-9a-f]{16}$", "", m.group(1))
            return "%s@%s" % (fn, m.group(2))
    return "unknown-frame"


def parse_asan(out):
    reports = []
    for m in re.finditer(r"ERROR: AddressSanitizer: (\S+)", out):
        chunk = out[m.start(): m.start() + 6000]
        reports.append(("asan." + m.group(1), _first_repo_frame(chunk), chunk[:3000]))
    return reports


def parse_valgrind(out):
    reports = []
    pat = re.compile(r"==\d+== (Invalid (?:read|write) of size \d+|Conditional jump or move depends on uninitialised value\(s\)|Use of uninitialised value of size \d+|Invalid free\(\)[^\n]*|Mismatched free\(\)[^\n]*|Syscall param [^\n]*uninitialised[^\n]*|Source and destination overlap[^\n]*)")
    for m in pat.finditer(out):
        chunk = out[m.start(): m.start() + 4000]
        kind = re.sub(r" of size \d+", "", m.group(1)).split("(")[0].strip().replace(" ", "_")
        reports.append(("memcheck." + kind, _first_repo_frame(chunk), chunk[:3000]))
    return reports


def parse_miri(out):
    reports = []
    for m in re.finditer(r"error: Undefined Behavior: ([^\n]+)", out):
        chunk = out[m.start(): m.start() + 4000]
        loc = re.search(r"--> (/repo/\S+?):\d+:\d+", chunk)
        where = loc.group(1).replace("/repo/", "") if loc else "unknown-frame"
        msg = m.group(1)
        cls = "ub"
        if "in-bounds pointer arithmetic" in msg or "out-of-bounds pointer arithmetic" in msg:
            cls = "oob_pointer_arithmetic"  # formed but never dereferenced: a diagnostic, not a verdict (DESIGN 1.3)
        reports.append(("miri." + cls, where, chunk[:3000]))
    for m in re.finditer(r"error: unsupported operation: ([^\n]+)", out):
        reports.append(("miri.unsupported", m.group(1)[:80], out[m.start(): m.start() + 1500]))
    return reports


def _run_shard(args):
    ck, tool, cmd, env, outdir, timeout = args
    shutil.rmtree(outdir, ignore_errors=True)
    os.makedirs(outdir, exist_ok=True)
    t0 = time.time()
    try:
        p = subprocess.run(cmd, env=env, stdout=subprocess.PIPE, stderr=subprocess.STDOUT, text=True, errors="replace", timeout=timeout, cwd=os.path.join(ck.VERIF, "harness"))
        rc, out = p.returncode, p.stdout
    except subprocess.TimeoutExpired as e:
        rc, out = "timeout", (e.stdout or b"").decode("utf8", "replace") if isinstance(e.stdout, bytes) else (e.stdout or "")
    summary = None
    sp = os.path.join(outdir, "summary.json")
    if os.path.exists(sp):
        try:
            summary = json.load(open(sp))
        except Exception:
            summary = None
    return dict(tool=tool, cmd=cmd, rc=rc, out=out, wall=time.time() - t0, summary=summary)


def plan_c06(ck, prop, tier, seed, replay, t0):
    only_shard = None
    if replay:
        rp = json.load(open(replay))
        seed, tier = rp["seed"], rp["tier"]
        only_shard = rp.get("shard")
    jobs = []
    out_root = os.path.join(ck.BUILD, "out", "C06")
    nshard = {"quick": 16, "thorough": 64}[tier]

    # --- AddressSanitizer (both tiers) -------------------------------------------------------
    asan_bin = ck.build_harness("asan")
    env = dict(ck.ENV)
    env["ASAN_OPTIONS"] = "halt_on_error=1:detect_leaks=0:abort_on_error=0:symbolize=1:print_stacktrace=1"
    if os.path.exists("/usr/bin/llvm-symbolizer-14"):
        env["ASAN_SYMBOLIZER_PATH"] = "/usr/bin/llvm-symbolizer-14"
    for i in range(nshard):
        tag = "asan_%d_of_%d" % (i, nshard)
        if only_shard and only_shard != tag:
            continue
        od = os.path.join(out_root, tag)
        cmd = [asan_bin, "C06", "--tier", tier, "--seed", str(seed), "--threads", "1", "--out", od, "mode=asan", "shard=%d/%d" % (i, nshard)]
        jobs.append((ck, tag, cmd, env, od, 3600))

    # --- dev-profile build: debug_assert alignment checks, overflow checks, misaligned-pointer checks
    if tier == "thorough" or only_shard:
        dbg_bin = ck.build_harness("debug")
        for i in range(8):
            tag = "debug_%d_of_8" % i
            if only_shard and only_shard != tag:
                continue
            od = os.path.join(out_root, tag)
            cmd = [dbg_bin, "C06", "--tier", tier, "--seed", str(seed), "--threads", "1", "--out", od, "mode=native", "shard=%d/8" % i]
            jobs.append((ck, tag, cmd, dict(ck.ENV), od, 3600))

    # --- valgrind memcheck on the optimised binary ------------------------------------------------
    rel_bin = ck.build_harness("release")
    nval = {"quick": 8, "thorough": 32}[tier]
    for i in range(nval):
        tag = "valgrind_%d_of_%d" % (i, nval)
        if only_shard and only_shard != tag:
            continue
        od = os.path.join(out_root, tag)
        cmd = ["valgrind", "--tool=memcheck", "--error-exitcode=97", "--num-callers=30", "--track-origins=no", "--partial-loads-ok=no", "--expensive-definedness-checks=yes", rel_bin,
               "C06", "--tier", tier, "--seed", str(seed), "--threads", "1", "--out", od, "mode=valgrind", "shard=%d/%d" % (i, nval)]
        jobs.append((ck, tag, cmd, dict(ck.ENV), od, 7200))

    # --- Miri (thorough): generic arm only (the SIMD score / stripe kernels execute _mm_sfence) ------
    if tier == "thorough" or (only_shard and only_shard.startswith("miri")):
        nmiri = 16
        env = dict(ck.ENV)
        env["MIRIFLAGS"] = "-Zmiri-tree-borrows -Zmiri-disable-isolation"
        env["CARGO_TARGET_DIR"] = os.path.join(ck.BUILD, "miri")
        for i in range(nmiri):
            tag = "miri_%d_of_%d" % (i, nmiri)
            if only_shard and only_shard != tag:
                continue
            od = os.path.join(out_root, tag)
            cmd = ["cargo", "+nightly", "miri", "run", "--offline", "--quiet", "--", "C06", "--tier", "quick", "--seed", str(seed), "--threads", "1", "--out", od, "mode=miri", "shard=%d/%d" % (i, nmiri)]
            jobs.append((ck, tag, cmd, env, od, 7200))

    # miri shares one target dir: run the first miri job alone so that the sysroot / crate builds are not raced
    results = []
    miri_jobs = [j for j in jobs if j[1].startswith("miri")]
    other_jobs = [j for j in jobs if not j[1].startswith("miri")]
    with concurrent.futures.ThreadPoolExecutor(max_workers=ck.NCPU) as ex:
        results.extend(ex.map(_run_shard, other_jobs))
    if miri_jobs:
        results.append(_run_shard(miri_jobs[0]))
        with concurrent.futures.ThreadPoolExecutor(max_workers=ck.NCPU) as ex:
            results.extend(ex.map(_run_shard, miri_jobs[1:]))

    # --- turn tool reports into violations / diagnostics -------------------------------------------
    records = []
    diagnostics = {}
    tool_stats = {}
    tool_cov = {}
    for r in results:
        tool = r["tool"].split("_")[0]
        st = tool_stats.setdefault(tool, dict(shards=0, evaluations=0, wall_s=0.0, reports=0))
        st["shards"] += 1
        st["wall_s"] = round(st["wall_s"] + r["wall"], 1)
        s = r["summary"]
        if s:
            st["evaluations"] += s["evaluations"]
        if tool == "asan":
            reports = parse_asan(r["out"])
        elif tool == "valgrind":
            reports = parse_valgrind(r["out"])
        elif tool == "miri":
            reports = parse_miri(r["out"])
        else:
            reports = []
        synth = []
        for kind, frame, text in reports:
            st["reports"] += 1
            if kind in ("miri.oob_pointer_arithmetic", "miri.unsupported"):
                diagnostics["%s:%s" % (kind, frame)] = diagnostics.get("%s:%s" % (kind, frame), 0) + 1
                continue
            synth.append(dict(kind="c06.%s:%s" % (kind, frame), case=0, message="%s report in shard %s" % (kind, r["tool"]), witness=dict(shard=r["tool"], cmd=" ".join(r["cmd"]), report=text)))
        # a shard that died on a signal without any checker report: hardware fault of an aligned access, abort, ...
        rc = r["rc"]
        died = isinstance(rc, int) and rc < 0
        if died and not synth:
            synth.append(dict(kind="c06.crash.signal%d" % (-rc), case=0, message="shard %s died on signal %d" % (r["tool"], -rc), witness=dict(shard=r["tool"], cmd=" ".join(r["cmd"]), tail=r["out"][-2000:])))
        summary = s
        if summary is None:
            # no summary: the shard stopped on its first report (halt_on_error) or crashed
            summary = dict(evaluations=0, distinct_nontrivial=0, rule="", coverage={}, samples=[], violation_kinds={}, violations=[], inconclusive=[], tier=tier, seed=seed)
            if not synth and rc != 0:
                if tool == "miri" and any(k.startswith("miri.") for k in diagnostics):
                    pass  # stopped on a diagnostic class that is not a verdict
                else:
                    summary["inconclusive"].append("shard %s exited with %s without a summary or a checker report: %s" % (r["tool"], rc, r["out"][-300:].replace("\n", " | ")))
        summary = dict(summary)
        # required coverage is judged on the union of a tool's shards (below), not per shard
        summary["inconclusive"] = [x for x in summary["inconclusive"] if not x.startswith("required coverage class never observed")]
        for k, v in summary.get("coverage", {}).items():
            agg = tool_cov.setdefault(tool, {})
            agg[k] = agg.get(k, 0) + v
        summary["violations"] = list(summary["violations"]) + synth
        kinds = dict(summary["violation_kinds"])
        for v in synth:
            kinds[v["kind"]] = kinds.get(v["kind"], 0) + 1
        summary["violation_kinds"] = kinds
        summary.setdefault("tier", tier)
        summary.setdefault("seed", seed)
        for v in summary["violations"]:
            v.setdefault("witness", {})
            if isinstance(v["witness"], dict):
                v["witness"].setdefault("shard", r["tool"])
        records.append(dict(build=r["tool"], rc=0 if isinstance(rc, int) and rc in (0, 1, 97) or synth else rc, out=r["out"], wall=r["wall"], summary=summary, cmd=r["cmd"]))
    # non-vacuity per tool: every op family must have run under it
    required = ["family.stripe_score", "family.striped_histories", "family.encode", "family.max_threshold", "family.scanner", "family.sampler", "family.dense", "family.misc"]
    if not only_shard:
        for tool, cov in tool_cov.items():
            missing = [k for k in required if cov.get(k, 0) == 0 and not (tool == "miri" and k == "family.max_threshold")]
            if missing and records:
                records[0]["summary"]["inconclusive"].append("tool %s never ran the op families %s" % (tool, missing))
    # evidence wants evaluations summed over the tools and the distinct count of one tool
    extra = dict(tools=tool_stats, miri_diagnostics_not_verdicts=diagnostics)
    rc = ck.finish(prop, tier, seed, records, t0, replay_of=replay, extra_observed=extra, compact_builds=True)
    return rc


# --------------------------------------------------------------------------------------
# C17 / C18: Python-level monitors run by the system interpreter against an extension module that
# contains the current tree of /repo/lightmotif-py plus the monitor helpers (pyharness/)


def build_pyharness(ck, overflow_checks=False):
    """overflow_checks: the binding crate (and the generic code instantiated in it) is compiled with
    arithmetic-overflow checks, as the dev profile of `maturin develop` / `cargo test` does; used
    for a second pass of C18 only (index arithmetic at the Py_ssize_t extremes). Under these checks
    the generic 8-bit kernel panics instead of wrapping (open finding of C08), so C17, which scans
    on the generic arm, is judged on the plain release build only."""
    crate = os.path.join(ck.VERIF, "pyharness")
    env = dict(ck.ENV)
    tdir = os.path.join(ck.BUILD, "py-ovf" if overflow_checks else "py")
    env["CARGO_TARGET_DIR"] = tdir
    env["PYO3_PYTHON"] = "/usr/bin/python3"
    cmd = ["cargo", "build", "--release", "--offline"]
    if overflow_checks:
        cmd += ["--config", "profile.release.package.lightmotif-py.overflow-checks=true"]
    rc, out, dt = ck.run(cmd, cwd=crate, env=env, timeout=3600)
    if rc != 0:
        raise ck.Inconclusive("build of pyharness failed: %s" % out[-1500:].replace("\n", " | "))
    pkg = os.path.join(tdir, "pkg")
    os.makedirs(pkg, exist_ok=True)
    shutil.copyfile(os.path.join(tdir, "release", "liblmverif_py.so"), os.path.join(pkg, "lmverif_py.so"))
    ck.log("[build pyharness%s: %.1fs]" % (" (overflow checks)" if overflow_checks else "", dt))
    return pkg


def plan_python(ck, prop, tier, seed, replay, t0):
    only = None
    if replay:
        rp = json.load(open(replay))
        seed, tier, only = rp["seed"], rp["tier"], rp["case"]
    pkg = build_pyharness(ck)
    env = dict(ck.ENV)
    env["PYTHONPATH"] = "%s:%s" % (pkg, "/repo/lightmotif-py")
    env["RUST_BACKTRACE"] = "0"
    env["PYTHONDONTWRITEBYTECODE"] = "1"
    script = os.path.join(ck.VERIF, "py", "monitor_%s.py" % prop.lower())
    records = []

    def one(tag, prefix, extra_env, tier_arg, timeout):
        od = os.path.join(ck.BUILD, "out", prop, tag)
        shutil.rmtree(od, ignore_errors=True)
        os.makedirs(od, exist_ok=True)
        cmd = list(prefix) + ["/usr/bin/python3", script, "--tier", tier_arg, "--seed", str(seed), "--out", od]
        if only is not None:
            cmd += ["--only", str(only)]
        e = dict(env)
        e.update(extra_env)
        rc, out, dt = ck.run(cmd, cwd="/tmp", env=e, timeout=timeout)
        summary = None
        sp = os.path.join(od, "summary.json")
        if os.path.exists(sp):
            summary = json.load(open(sp))
        return dict(build=tag, rc=rc, out=out, wall=dt, summary=summary, cmd=cmd)

    records.append(one("python", [], {}, tier, 3600))
    extra = {}
    if prop == "C18":
        # second pass on a build whose binding crate has arithmetic-overflow checks (dev-profile
        # semantics of the index arithmetic); quick-sized in both tiers
        pkg2 = build_pyharness(ck, overflow_checks=True)
        records.append(one("python_overflow_checks", [], {"PYTHONPATH": "%s:%s" % (pkg2, "/repo/lightmotif-py")}, "quick", 3600))
    if prop == "C18" and tier == "thorough" and only is None:
        # the same script under valgrind memcheck (CPython on the system allocator): any invalid read
        # attributed to a buffer access is a view left dangling / pointing outside the object's storage
        r = one("valgrind", ["valgrind", "--tool=memcheck", "--error-exitcode=0", "--num-callers=25", "--suppressions=%s" % os.path.join(ck.VERIF, "py", "python.supp")],
                {"PYTHONMALLOC": "malloc", "LMVERIF_VALGRIND": "1"}, "quick", 7200)
        reports = [x for x in parse_valgrind(r["out"]) if "Invalid_read" in x[0] or "Invalid_write" in x[0]]
        extra["valgrind_reports"] = len(reports)
        synth = []
        for kind, frame, text in reports:
            if "lightmotif" in text or "memory_" in text or "memoryview" in text.lower():
                synth.append(dict(kind="c18.%s:%s" % (kind, frame), case=0, message="%s while reading a buffer view" % kind, witness=dict(report=text)))
        if r["summary"] is not None:
            s = r["summary"]
            s["violations"] = list(s["violations"]) + synth
            for v in synth:
                s["violation_kinds"][v["kind"]] = s["violation_kinds"].get(v["kind"], 0) + 1
        records.append(r)
    return ck.finish(prop, tier, seed, records, t0, replay_of=replay, extra_observed=extra)


PLANS = {"C06": plan_c06, "C17": plan_python, "C18": plan_python}


def setup(ck):
    rc = 0
    for variant in ("asan", "release", "debug"):
        try:
            ck.build_harness(variant)
        except ck.Inconclusive as e:
            print("setup: %s" % e)
            rc = 1
    for ovf in (False, True):
        try:
            build_pyharness(ck, overflow_checks=ovf)
        except ck.Inconclusive as e:
            print("setup: %s" % e)
            rc = 1
    return rc
