"""C18 - Python indexing and buffer views expose exactly the logical contents."""
import os
import struct
import sys

sys.path.insert(0, os.path.dirname(os.path.abspath(__file__)))
from common import *  # noqa
import refmodel as R

RULE = (
    "case = one object family at one size: EncodedSequence, StripedSequence, CountMatrix, WeightMatrix, ScoringMatrix, ScoreDistribution, StripedScores "
    "(DNA and protein; widths 0..40 incl. widths below the alphabet size; sequence lengths from the boundary set up to 3000 incl. 0 and L < M; "
    "before and after calculate / scan added look-ahead rows; copies of scored sequences, which are scored again themselves; motifs exactly as long as the sequence). Sequence protocol: len(obj) is the logical length, obj[i] for every "
    "i in [-len-2, len+1] plus +-2^31, +-2^32, +-2^62 and both Py_ssize_t extremes returns the model's element for valid indices and raises IndexError otherwise (never a panic). Buffer protocol: "
    "memoryview(obj) ndim / shape / strides / format / itemsize are compared with the logical layout and EVERY element read through the view (via shape and strides "
    "on the raw bytes) must be the logical element; the extent shape x strides must lie inside the buffer reported by a fresh PyObject_GetBuffer; a view taken "
    "before the object is reused for scoring must still point into the object's current storage afterwards (address comparison through the monitor helper; "
    "thorough: the same script under valgrind). Non-trivial = object with >= 1 element; distinct = distinct (class, alphabet, size, history)."
)
REQUIRED = [
    "class.EncodedSequence", "class.StripedSequence", "class.CountMatrix", "class.WeightMatrix", "class.ScoringMatrix",
    "class.ScoreDistribution", "class.StripedScores", "alphabet.protein", "index.negative", "index.out_of_range",
    "index.huge", "index.row_modified_then_reread", "constructor.partial_dict", "class.long_text>2^20", "view.elements_checked", "view.empty_object", "view.rows<K", "view.after_calculate",
    "view.copy_of_scored", "view.copy_scored_again", "scores.L=M", "view.taken_before_reuse", "view.realloc_expected", "scores.L<M",
]

lightmotif = None
helper = None


def call(rep, case, what, f, wit=None):
    try:
        return True, f()
    except Exception as e:
        return False, e
    except BaseException as e:
        if type(e).__name__ in ("KeyboardInterrupt", "SystemExit"):
            raise
        rep.violate("c18.panic:%s" % what.split("[")[0], case, "%s raised %s: %s" % (what, type(e).__name__, e), wit)
        return False, e


def check_indexing(rep, case, cls, obj, model, wit, same=None):
    """model: list of logical elements"""
    n = len(model)
    ok, ln = call(rep, case, "len(%s)" % cls, lambda: len(obj), wit)
    if not ok or ln != n:
        rep.violate("c18.len", case, "len(%s) = %r, logical length %d" % (cls, ln, n), wit)
        return False
    same = same or (lambda a, b: a == b)
    idxs = list(range(-n - 2, n + 2)) if n <= 70 else list(range(-n - 2, -n + 3)) + list(range(-3, 3)) + list(range(n - 3, n + 2)) + [n // 2, -(n // 2)]
    idxs += [2 ** 62, -(2 ** 62), 2 ** 63 - 1, -(2 ** 63), -(2 ** 63) + 1, 2 ** 31, -(2 ** 31), 2 ** 32, -(2 ** 32)]  # incl. both Py_ssize_t extremes
    for i in idxs:
        rep.eval()
        ok, v = call(rep, case, "%s[%d]" % (cls, i), lambda: obj[i], wit)
        valid = -n <= i < n
        if i < 0:
            rep.cover("index.negative")
        if abs(i) >= 2 ** 62:
            rep.cover("index.huge")
        if valid:
            if not ok:
                rep.violate("c18.index.valid_rejected", case, "%s[%d] raised %r (len %d)" % (cls, i, v, n), wit)
                return False
            if not same(v, model[i]):
                rep.violate("c18.index.value", case, "%s[%d] = %r, logical element %r" % (cls, i, v, model[i]), wit)
                return False
        else:
            rep.cover("index.out_of_range")
            if ok:
                rep.violate("c18.index.invalid_accepted", case, "%s[%d] returned %r for an object of length %d" % (cls, i, v, n), wit)
                return False
            if not isinstance(v, IndexError):
                if isinstance(v, Exception):
                    rep.violate("c18.index.wrong_exception", case, "%s[%d] raised %s instead of IndexError" % (cls, i, type(v).__name__), wit)
                return False
    return True


FMT = {"B": ("B", 1), "f": ("f", 4), "d": ("d", 8)}


def check_view(rep, case, cls, obj, logical, fmt, wit, shape=None):
    """logical: for 1-D a list; for 2-D a function (i, j) -> element, with `shape` = expected shape.
    Reads every element through (shape, strides) on the raw bytes of the buffer."""
    ok, mv = call(rep, case, "memoryview(%s)" % cls, lambda: memoryview(obj), wit)
    if not ok:
        rep.violate("c18.view.error", case, "memoryview(%s) raised %r" % (cls, mv), wit)
        return None
    ok, info = call(rep, case, "buffer_info(%s)" % cls, lambda: helper.buffer_info(obj), wit)
    if not ok:
        rep.violate("c18.view.error", case, "PyObject_GetBuffer(%s) raised %r" % (cls, info), wit)
        return None
    addr, blen, readonly, itemsize, bformat, ndim, bshape, bstrides = info
    code, size = FMT[fmt]
    if mv.format != fmt or mv.itemsize != size or bformat != fmt or itemsize != size:
        rep.violate("c18.view.format", case, "%s view: format %r itemsize %r, expected %r / %d" % (cls, mv.format, mv.itemsize, fmt, size), wit)
        return mv
    if not mv.readonly:
        rep.violate("c18.view.writable", case, "%s view is writable" % cls, wit)
    if shape is None:
        n = len(logical)
        if mv.ndim != 1 or tuple(mv.shape) != (n,):
            rep.violate("c18.view.shape", case, "%s view: ndim %d shape %r, logical length %d" % (cls, mv.ndim, tuple(mv.shape), n), wit)
            return mv
        if n == 0:
            rep.cover("view.empty_object")
        ok, vals = call(rep, case, "%s view.tolist()" % cls, lambda: mv.tolist(), wit)
        if not ok:
            rep.violate("c18.view.error", case, "tolist() raised %r" % (vals,), wit)
            return mv
        rep.cover("view.elements_checked", n)
        for i in range(n):
            if vals[i] != logical[i] and not (vals[i] != vals[i] and logical[i] != logical[i]):
                rep.violate("c18.view.element", case, "%s view[%d] = %r, logical element %r" % (cls, i, vals[i], logical[i]), wit)
                return mv
        return mv
    if mv.ndim != 2 or tuple(mv.shape) != tuple(shape) or tuple(bshape) != tuple(shape):
        rep.violate("c18.view.shape", case, "%s view: ndim %d shape %r, logical shape %r" % (cls, mv.ndim, tuple(mv.shape), tuple(shape)), wit)
        return mv
    if 0 in shape:
        rep.cover("view.empty_object")
        return mv
    s0, s1 = mv.strides
    if s0 <= 0 or s1 <= 0 or tuple(bstrides) != (s0, s1):
        rep.violate("c18.view.strides", case, "%s view strides %r / %r" % (cls, mv.strides, bstrides), wit)
        return mv
    extent = (shape[0] - 1) * s0 + (shape[1] - 1) * s1 + size
    # raw bytes of the object's storage as far as the view reaches; the monitor reads them through
    # ctypes from the address of a fresh PyObject_GetBuffer (cast() refuses non-contiguous layouts)
    import ctypes

    raw = ctypes.string_at(addr, extent)
    rep.cover("view.elements_checked", shape[0] * shape[1])
    for i in range(shape[0]):
        for j in range(shape[1]):
            off = i * s0 + j * s1
            v = struct.unpack_from(code, raw, off)[0]
            e = logical(i, j)
            if v != e and not (v != v and e != e):
                rep.violate("c18.view.element", case, "%s view[%d][%d] = %r, logical element %r (shape %r strides %r)" % (cls, i, j, v, e, tuple(shape), (s0, s1)), wit)
                return mv
    # element access through the memoryview object itself for a few cells
    for i, j in ((0, 0), (shape[0] - 1, shape[1] - 1), (shape[0] // 2, shape[1] // 2)):
        ok, v = call(rep, case, "%s view[i,j]" % cls, lambda: mv[i, j], wit)
        e = logical(i, j)
        if ok and v != e and not (v != v and e != e):
            rep.violate("c18.view.element", case, "%s view[%d,%d] = %r, logical element %r" % (cls, i, j, v, e), wit)
            return mv
    return mv


def striped_cell(idx, wild, rows):
    return lambda c, r: idx[c * rows + r] if c * rows + r < len(idx) else wild


# ----------------------------------------------------------------------------------------------


def family_sequences(rep, case, rng):
    protein = rng.random() < 0.3
    alphabet = PROTEIN if protein else DNA
    k = len(alphabet)
    if protein:
        rep.cover("alphabet.protein")
    length = rng.choice([0, 1, 2, 15, 16, 17, 31, 32, 33, 63, 64, 65, 100, 129, 289, 302, 991, 1023, 1024, 1025, 1031, 1056, 2048]) if rng.random() < 0.6 else rng.randint(0, 3000)
    text = rand_seq(rng, alphabet, length, wild=0.05)
    idx = [alphabet.index(c) for c in text]
    wit = dict(protein=protein, length=length, sequence=text[:60])
    ok, enc = call(rep, case, "EncodedSequence", lambda: lightmotif.EncodedSequence(text, protein=protein), wit)
    if not ok:
        rep.violate("c18.setup", case, "EncodedSequence raised %r" % (enc,), wit)
        return
    rep.cover("class.EncodedSequence")
    if str(enc) != text:
        rep.violate("c18.str", case, "str(EncodedSequence) differs from the text", wit)
    check_indexing(rep, case, "EncodedSequence", enc, idx, wit)
    check_view(rep, case, "EncodedSequence", enc, idx, "B", wit)
    check_indexing(rep, case, "EncodedSequence.copy()", enc.copy(), idx, wit)
    # striped
    rep.cover("class.StripedSequence")
    ok, st = call(rep, case, "stripe", lambda: enc.stripe(), wit)
    if not ok:
        rep.violate("c18.setup", case, "stripe raised %r" % (st,), wit)
        return
    rows = (length + 31) // 32
    cell = striped_cell(idx, k - 1, rows)
    old_view = check_view(rep, case, "StripedSequence", st, cell, "B", wit, shape=(32, rows))
    old_info = helper.buffer_info(st) if old_view is not None else None
    rep.cover("view.taken_before_reuse")
    # reuse for scoring with one or several motifs: look-ahead rows are added, storage may move
    widths = [rng.choice([1, 2, 5, 17, 33, 34, 40, 64])] + ([rng.randint(2, 70)] if rng.random() < 0.5 else [])
    if 1 <= length <= 70 and rng.random() < 0.7:
        widths.append(length)  # the motif exactly as long as the sequence: one position
        rng.shuffle(widths)
    last = None
    for w in widths:
        seqs = [rand_seq(rng, alphabet, w, wild=0.0) for _ in range(4)]
        pssm = lightmotif.create(seqs, protein=protein).counts.normalize(0.5).log_odds()
        wit2 = dict(wit, motif_width=w)
        ok, sc = call(rep, case, "calculate", lambda: pssm.calculate(st), wit2)
        if not ok:
            rep.violate("c18.setup", case, "calculate raised %r" % (sc,), wit2)
            return
        if not protein and rng.random() < 0.5:
            call(rep, case, "scan", lambda: list(lightmotif.scan(pssm, st, threshold=1e30)), wit2)
        rep.cover("view.after_calculate")
        check_view(rep, case, "StripedSequence (after calculate)", st, cell, "B", wit2, shape=(32, rows))
        if w - 1 > 32:
            rep.cover("view.realloc_expected")
        # the view exported before must still lie inside the object's current storage
        if old_view is not None and rows > 0:
            new_info = helper.buffer_info(st)
            ok_, old_addr = call(rep, case, "buffer_info(old view)", lambda: helper.buffer_info(old_view)[0], wit2)
            extent = 31 * 1 + (rows - 1) * 32 + 1
            if ok_ and not (new_info[0] <= old_addr and old_addr + extent <= new_info[0] + max(new_info[1], extent)):
                rep.violate(
                    "c18.view.dangling_after_reuse",
                    case,
                    "a memoryview of the StripedSequence taken before calculate() (motif width %d, %d look-ahead rows) points at %#x, the object's storage is now at %#x: the exported buffer was reallocated under the view" % (w, w - 1, old_addr, new_info[0]),
                    wit2,
                )
        # scores object
        rep.cover("class.StripedScores")
        n = max(0, length - w + 1)
        if length < w:
            rep.cover("scores.L<M")
        prow = [list(pssm[i]) for i in range(len(pssm))]
        exact = [e[0] for e in R.scores(prow, idx)] if length >= w else []
        if length == w:
            rep.cover("scores.L=M")
        got_ok, got = call(rep, case, "list(scores)", lambda: [sc[i] for i in range(n)], wit2)
        if not got_ok:
            rep.violate("c18.scores.index", case, "StripedScores: reading scores[0..%d) (L-M+1 positions) raised %r; len(scores) = %r" % (n, got, len(sc)), wit2)
        if got_ok:
            last = (pssm, w, got)
            model = got  # the values themselves are C17's business; here: index <-> view consistency
            for i in range(n):
                if exact[i] == R.NEG_INF and got[i] != R.NEG_INF:
                    rep.violate("c18.scores.value", case, "scores[%d] = %r, definition gives -inf" % (i, got[i]), wit2)
                    break
            check_indexing(rep, case, "StripedScores", sc, model, wit2)
            srows = rows if n > 0 else 0

            def scell(c, r, model=model, srows=srows):
                p = c * srows + r
                return model[p] if p < len(model) else None

            mv = check_view_scores(rep, case, sc, scell, srows, wit2)
    # a copy of the scored sequence has the same logical contents
    rep.cover("view.copy_of_scored")
    ok, cp = call(rep, case, "StripedSequence.copy()", lambda: st.copy(), wit)
    if ok:
        check_view(rep, case, "StripedSequence.copy() after scoring", cp, cell, "B", wit, shape=(32, rows))
        import copy as _copy

        check_view(rep, case, "copy.copy(StripedSequence) after scoring", _copy.copy(st), cell, "B", wit, shape=(32, rows))
        # ... and behaves like the original when it is scored itself (a copy must not keep
        # book-keeping of look-ahead rows it did not copy, nor lose them)
        if last is not None:
            pssm, w, got = last
            for label, c2 in (("copy()", cp), ("copy.copy()", _copy.copy(st))):
                wit3 = dict(wit, motif_width=w, copy=label)
                ok2, sc2 = call(rep, case, "calculate(copy)", lambda: pssm.calculate(c2), wit3)
                if not ok2:
                    rep.violate("c18.copy.calculate", case, "calculate on a %s of a scored sequence raised %r" % (label, sc2), wit3)
                    continue
                ok3, got2 = call(rep, case, "list(scores of copy)", lambda: [sc2[i] for i in range(len(got))], wit3)
                if not ok3 or len(sc2) != len(got) or any(not (a == b) for a, b in zip(got2, got)):
                    rep.violate("c18.copy.scores", case, "scores of a %s of a scored sequence differ from the scores of the original (len %r vs %d)" % (label, len(sc2), len(got)), wit3)
                    continue
                srows2 = rows if len(got) > 0 else 0

                def scell2(c, r, model=got, srows=srows2):
                    p_ = c * srows + r
                    return model[p_] if p_ < len(model) else None

                check_view_scores(rep, case, sc2, scell2, srows2, wit3)
                check_view(rep, case, "StripedSequence.%s after scoring the copy" % label, c2, cell, "B", wit3, shape=(32, rows))
                rep.cover("view.copy_scored_again")
    if length > 0:
        rep.nontrivial("seq", protein, text, tuple(widths))
    rep.sample(dict(case=case, family="sequences", **wit, widths=widths))


def check_view_scores(rep, case, sc, scell, srows, wit):
    """StripedScores view: element [c][r] is the score of position c*rows + r for valid positions;
    cells past the last valid position are not logical elements and are not judged."""
    def logical(c, r):
        v = scell(c, r)
        return v

    ok, mv = call(rep, case, "memoryview(StripedScores)", lambda: memoryview(sc), wit)
    if not ok:
        rep.violate("c18.view.error", case, "memoryview(StripedScores) raised %r" % (mv,), wit)
        return None
    info = helper.buffer_info(sc)
    if mv.format != "f" or mv.itemsize != 4 or mv.ndim != 2 or tuple(mv.shape) != (32, srows):
        rep.violate("c18.view.shape", case, "StripedScores view: format %r ndim %d shape %r, expected 'f' 2 %r" % (mv.format, mv.ndim, tuple(mv.shape), (32, srows)), wit)
        return mv
    if srows == 0:
        rep.cover("view.empty_object")
        return mv
    import ctypes

    s0, s1 = mv.strides
    extent = 31 * s0 + (srows - 1) * s1 + 4
    raw = ctypes.string_at(info[0], extent)
    n = 0
    for c in range(32):
        for r in range(srows):
            e = logical(c, r)
            if e is None:
                continue
            n += 1
            v = struct.unpack_from("f", raw, c * s0 + r * s1)[0]
            if v != e:
                rep.violate("c18.view.element", case, "StripedScores view[%d][%d] = %r but scores[%d] = %r" % (c, r, v, c * srows + r, e), wit)
                return mv
    rep.cover("view.elements_checked", n)
    return mv


def check_row_independence(rep, case, cls, obj, wit):
    """a row handed out by obj[i] is a value: changing it must not change what obj[i] returns next"""
    try:
        n = len(obj)
        if n == 0:
            return
        i = n // 2
        row = obj[i]
        before = list(row)
        if not isinstance(row, list) or not before:
            return
        row[0] = 12345.0
        row.append(-1.0)
        again = list(obj[i])
        neg = list(obj[i - n])
        if again != before or neg != before:
            rep.violate("c18.index.row_aliases_earlier_result", case, "%s[%d] returns %r after the list returned earlier was modified; it returned %r before" % (cls, i, again[:6], before[:6]), wit)
        rep.cover("index.row_modified_then_reread")
    except Exception as e:
        rep.violate("c18.index.row_aliases_earlier_result", case, "%s: re-reading a row after modifying the earlier result raised %r" % (cls, e), wit)


def family_long_text(rep, case, rng):
    """more than 2**20 symbols: the tail, the head and the seams of any internal chunking must show
    the symbols of the text (indexing, str, buffer view, striped view)"""
    protein = rng.random() < 0.3
    alphabet = PROTEIN if protein else DNA
    k = len(alphabet)
    length = 2 ** 20 + rng.randint(1, 70000)
    text = "".join(rng.choices(alphabet[:-1], k=length))
    wit = dict(protein=protein, length=length)
    ok, enc = call(rep, case, "EncodedSequence(long)", lambda: lightmotif.EncodedSequence(text, protein=protein), wit)
    if not ok:
        rep.violate("c18.setup", case, "EncodedSequence of %d symbols raised %r" % (length, enc), wit)
        return
    rep.cover("class.long_text>2^20")
    rep.eval()
    if len(enc) != length:
        rep.violate("c18.len", case, "len = %r for a text of %d symbols" % (len(enc), length), wit)
        return
    probes = sorted(set([0, 1, 2 ** 20 - 1, 2 ** 20, 2 ** 20 + 1, length - 1, length - 2, length // 2] + [rng.randrange(length) for _ in range(200)] + list(range(length - 300, length))))
    for i in probes:
        rep.eval()
        ok, v = call(rep, case, "EncodedSequence[%d]" % i, lambda: enc[i], wit)
        if not ok or v != alphabet.index(text[i]):
            rep.violate("c18.index.value", case, "EncodedSequence[%d] = %r in a text of %d symbols, logical element %r (%r)" % (i, v, length, alphabet.index(text[i]), text[i]), wit)
            return
    if enc[-1] != alphabet.index(text[-1]):
        rep.violate("c18.index.value", case, "EncodedSequence[-1] = %r, the text ends in %r" % (enc[-1], text[-1]), wit)
        return
    ok, shown = call(rep, case, "str(EncodedSequence long)", lambda: str(enc), wit)
    if not ok or shown != text:
        rep.violate("c18.str", case, "str(EncodedSequence) of a %d-symbol text differs from the text%s" % (length, "" if not ok or len(shown) != length else " (first difference at %d)" % next(i for i in range(length) if shown[i] != text[i])), wit)
        return
    ok, mv = call(rep, case, "memoryview(EncodedSequence long)", lambda: memoryview(enc), wit)
    if ok:
        raw = bytes(mv)
        want = bytes(alphabet.index(c) for c in text[-5000:])
        if len(raw) != length or raw[-5000:] != want or raw[:100] != bytes(alphabet.index(c) for c in text[:100]):
            rep.violate("c18.view.element", case, "buffer view of a %d-symbol EncodedSequence does not show the symbols of the text (head / tail)" % length, wit)
            return
        rep.cover("view.elements_checked", 5100)
    ok, st = call(rep, case, "stripe(long)", lambda: enc.stripe(), wit)
    if ok:
        rows = (length + 31) // 32
        ok2, mv2 = call(rep, case, "memoryview(StripedSequence long)", lambda: memoryview(st), wit)
        if ok2 and mv2.shape == (32, rows):
            for i in probes:
                c, r = divmod(i, rows)
                if mv2[c, r] != alphabet.index(text[i]):
                    rep.violate("c18.view.element", case, "striped view [%d, %d] = %r, position %d of the text is %r" % (c, r, mv2[c, r], i, text[i]), wit)
                    return
        elif ok2:
            rep.violate("c18.view.shape", case, "striped view shape %r, expected %r" % (mv2.shape, (32, rows)), wit)


def family_matrices(rep, case, rng):
    protein = rng.random() < 0.3
    alphabet = PROTEIN if protein else DNA
    k = len(alphabet)
    if protein:
        rep.cover("alphabet.protein")
    w = rng.choice([1, 2, 3, 4, 5, 6, 20, 21, 22, 40]) if rng.random() < 0.7 else rng.randint(1, 40)
    if w < k:
        rep.cover("view.rows<K")
    seqs = [rand_seq(rng, alphabet, w, wild=0.0) for _ in range(rng.randint(2, 12))]
    wit = dict(protein=protein, width=w)
    motif = lightmotif.create(seqs, protein=protein)
    counts = R.counts_from_sequences(seqs, alphabet)
    rep.cover("class.CountMatrix")
    check_indexing(rep, case, "CountMatrix", motif.counts, counts, wit, same=lambda a, b: list(a) == list(b))
    check_row_independence(rep, case, "CountMatrix", motif.counts, wit)
    pwm = motif.counts.normalize(0.25)
    wref = R.weights(counts, [0.25] * (k - 1) + [0.0], R.uniform_bg(alphabet))
    rows_close = lambda a, b: len(a) == len(b) and all(close(float(x), float(y)) for x, y in zip(a, b))
    rep.cover("class.WeightMatrix")
    check_indexing(rep, case, "WeightMatrix", pwm, wref, wit, same=rows_close)
    check_row_independence(rep, case, "WeightMatrix", pwm, wit)
    pssm = pwm.log_odds()
    sref = R.log_odds(wref, 2.0)
    rep.cover("class.ScoringMatrix")
    if check_indexing(rep, case, "ScoringMatrix", pssm, sref, wit, same=rows_close):
        check_row_independence(rep, case, "ScoringMatrix", pssm, wit)
        prow = [list(pssm[i]) for i in range(w)]
        check_view(rep, case, "ScoringMatrix", pssm, lambda i, j: prow[i][j], "f", wit, shape=(w, k))
        rc_ok = not protein
        if rc_ok:
            rc = pssm.reverse_complement()
            rrow = [list(rc[i]) for i in range(w)]
            check_view(rep, case, "ScoringMatrix.reverse_complement()", rc, lambda i, j: rrow[i][j], "f", wit, shape=(w, k))
    # explicit constructor from a dictionary that names only SOME symbols, in any order (the others
    # are null columns): every cell must sit in the column of its own symbol
    if rng.random() < 0.6:
        w2 = rng.randint(1, 6)
        named = [ch for ch in alphabet if rng.random() < 0.5] or [rng.choice(alphabet)]
        rng.shuffle(named)
        values = {ch: [rng.randint(-40, 40) * 0.25 for _ in range(w2)] for ch in named}
        ok, partial = call(rep, case, "ScoringMatrix(partial dict)", lambda: lightmotif.ScoringMatrix(values, protein=protein), dict(wit, named="".join(named)))
        if not ok:
            rep.violate("c18.constructor.error", case, "ScoringMatrix(%r) raised %r" % (values, partial), wit)
        else:
            model = [[values[ch][i] if ch in values else 0.0 for ch in alphabet] for i in range(w2)]
            rep.cover("constructor.partial_dict")
            if check_indexing(rep, case, "ScoringMatrix(partial dict %s)" % "".join(named), partial, model, wit, same=lambda a, b: list(a) == list(b)):
                check_view(rep, case, "ScoringMatrix(partial dict)", partial, lambda i, j: model[i][j], "f", wit, shape=(w2, k))
    # explicit constructor incl. the empty matrix
    if rng.random() < 0.3:
        ok, empty = call(rep, case, "ScoringMatrix(empty)", lambda: lightmotif.ScoringMatrix({alphabet[0]: []}, protein=protein), wit)
        if ok:
            check_indexing(rep, case, "ScoringMatrix(empty)", empty, [], wit)
            check_view(rep, case, "ScoringMatrix(empty)", empty, lambda i, j: None, "f", wit, shape=(0, k))
    # survival function
    rep.cover("class.ScoreDistribution")
    ok, dist = call(rep, case, "score_distribution", lambda: pssm.score_distribution, wit)
    if ok:
        ok, mv = call(rep, case, "memoryview(ScoreDistribution)", lambda: memoryview(dist), wit)
        if ok:
            vals = mv.tolist()
            if mv.format != "d" or mv.ndim != 1 or len(vals) != w * 1000 + 1:
                rep.violate("c18.view.shape", case, "ScoreDistribution view: format %r ndim %d length %d, expected 'd' 1 %d" % (mv.format, mv.ndim, len(vals), w * 1000 + 1), wit)
            else:
                rep.cover("view.elements_checked", len(vals))
                bad = [i for i in range(len(vals)) if not (0.0 <= vals[i] <= 1.0) or (i > 0 and vals[i] > vals[i - 1])]
                if bad:
                    rep.violate("c18.view.element", case, "ScoreDistribution view[%d] = %r is not a value of a non-increasing survival function" % (bad[0], vals[bad[0]]), wit)
                else:
                    # the view and pvalue() read the same table
                    step = R.meme_step(sref)
                    lo = sum(min(r[: k - 1]) for r in sref)
                    hi = sum(max(r[: k - 1]) for r in sref)
                    for _ in range(5):
                        s = R.f32(rng.uniform(lo, hi))
                        p = pssm.pvalue(s)
                        # below the lowest / above the highest tabulated score pvalue() answers 1 / 0 without reading the table
                        if 0.0 < p < 1.0 and p not in vals:
                            rep.violate("c18.view.element", case, "pvalue(%r) = %r is not a value exposed by the view of the survival function" % (s, p), wit)
                            break
    rep.nontrivial("mat", protein, tuple(seqs))
    rep.sample(dict(case=case, family="matrices", **wit))


def main():
    global lightmotif, helper
    tier, seed, out, only = parse_args(sys.argv)
    rep = Report("C18", tier, seed, RULE, REQUIRED)
    lightmotif, helper = load_module()
    n = 400 if tier == "quick" else 12000
    if os.environ.get("LMVERIF_VALGRIND"):
        n = 60
        # (the million-symbol text is left out under valgrind: not required there)
        rep.required = [k for k in rep.required if k != "class.long_text>2^20"]
    cases = [only] if only is not None else range(n)
    for case in cases:
        rng = case_rng(seed, "C18", case)
        try:
            if (case == 0 or case % 256 == 200) and not os.environ.get("LMVERIF_VALGRIND"):
                family_long_text(rep, case, rng)
            if case % 2 == 0:
                family_sequences(rep, case, rng)
            else:
                family_matrices(rep, case, rng)
        except BaseException as e:
            if type(e).__name__ in ("KeyboardInterrupt", "SystemExit"):
                raise
            if not isinstance(e, Exception):
                # a PanicException (derives from BaseException) that escaped a library call the monitor
                # makes outside its guard: still the library's panic, never a monitor error
                import traceback

                rep.violate("c18.panic:unguarded_call", case, "%s raised by a library call: %s | %s" % (type(e).__name__, e, traceback.format_exc()[-400:].replace("\n", " | ")), None)
                continue
            import traceback

            rep.errors.append("case %d: monitor error %s: %s" % (case, type(e).__name__, traceback.format_exc()[-700:]))
    rep.write(out, only)
    print("C18: %d evaluations, %d distinct, kinds %s" % (rep.evaluations, len(rep.digests), rep.kinds), file=sys.stderr)


if __name__ == "__main__":
    main()
