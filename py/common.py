"""Shared helpers of the Python-level monitors (C17, C18): module loading, report / summary, PRNG."""
import json
import math
import os
import random
import sys
import time

DNA = "ACTGN"
PROTEIN = "ACDEFGHIKLMNPQRSTVWYX"
COMPLEMENT = {"A": "T", "T": "A", "C": "G", "G": "C", "N": "N"}


def load_module():
    """Import the extension built from /repo's current tree and register it as lightmotif.lib."""
    import lmverif_py

    sys.modules["lightmotif.lib"] = lmverif_py.lib
    import lightmotif

    return lightmotif, lmverif_py


class Report:
    MAX_PER_KIND = 5
    MAX_SAMPLES = 6

    def __init__(self, prop, tier, seed, rule, required):
        self.prop, self.tier, self.seed, self.rule, self.required = prop, tier, seed, rule, required
        self.evaluations = 0
        self.digests = set()
        self.cov = {}
        self.samples = []
        self.violations = []
        self.kinds = {}
        self.errors = []
        self.t0 = time.time()

    def eval(self, n=1):
        self.evaluations += n

    def nontrivial(self, *key):
        self.digests.add(hash(key))

    def cover(self, key, n=1):
        self.cov[key] = self.cov.get(key, 0) + n

    def sample(self, obj):
        if len(self.samples) < self.MAX_SAMPLES:
            self.samples.append(obj)

    def violate(self, kind, case, message, witness=None):
        self.kinds[kind] = self.kinds.get(kind, 0) + 1
        if self.kinds[kind] <= self.MAX_PER_KIND:
            self.violations.append(dict(kind=kind, case=case, message=message, witness=witness or {}))

    def write(self, outdir, only=None):
        inconclusive = list(self.errors)
        if only is None:
            for k in self.required:
                if self.cov.get(k, 0) == 0:
                    inconclusive.append("required coverage class never observed: %s" % k)
        os.makedirs(outdir, exist_ok=True)
        with open(os.path.join(outdir, "summary.json"), "w") as f:
            json.dump(
                dict(
                    property=self.prop,
                    tier=self.tier,
                    seed=self.seed,
                    evaluations=self.evaluations,
                    distinct_nontrivial=len(self.digests),
                    rule=self.rule,
                    coverage=self.cov,
                    required_coverage=self.required,
                    samples=self.samples,
                    violation_kinds=self.kinds,
                    violations=self.violations,
                    inconclusive=inconclusive,
                    notes=dict(harness_wall_s=time.time() - self.t0),
                ),
                f,
                default=repr,
            )


def case_rng(seed, prop, case):
    return random.Random("%s/%s/%s" % (seed, prop, case))


def parse_args(argv):
    tier, seed, out, only = "quick", 0, ".", None
    i = 1
    while i < len(argv):
        if argv[i] == "--tier":
            tier = argv[i + 1]
        elif argv[i] == "--seed":
            seed = int(argv[i + 1])
        elif argv[i] == "--out":
            out = argv[i + 1]
        elif argv[i] == "--only":
            only = int(argv[i + 1])
        i += 2
    return tier, seed, out, only


def close(a, b, rel=1e-5, abs_=1e-6):
    if a == b:
        return True
    if isinstance(a, float) and isinstance(b, float) and (math.isnan(a) or math.isnan(b)):
        return False
    if math.isinf(a) or math.isinf(b):
        return a == b
    return abs(a - b) <= abs_ + rel * max(abs(a), abs(b))


def dyadic_background(rng, alphabet, zero_entries=False):
    """frequencies (multiples of 1/256) over the non-wildcard symbols that sum to exactly one in f32"""
    n = len(alphabet) - 1
    parts = [1] * n
    if zero_entries:
        for _ in range(rng.randint(1, max(1, n // 2))):
            parts[rng.randrange(n)] = 0
        if not any(parts):
            parts[0] = 1
    left = 256 - sum(parts)
    while left > 0:
        j = rng.randrange(n)
        if parts[j] == 0:
            continue
        add = rng.randint(1, left)
        parts[j] += add
        left -= add
    return {alphabet[j]: parts[j] / 256.0 for j in range(n)}


def rand_seq(rng, alphabet, length, wild=0.02):
    k = len(alphabet)
    return "".join(alphabet[k - 1] if rng.random() < wild else alphabet[rng.randrange(k - 1)] for _ in range(length))
