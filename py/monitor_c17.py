"""C17 - Python results equal the results of the core definitions on the same data."""
import io
import math
import os
import sys
import tempfile

sys.path.insert(0, os.path.dirname(os.path.abspath(__file__)))
from common import *  # noqa
import refmodel as R

RULE = (
    "case = one Python-level scenario generated from VERIF_SEED: (build) create / CountMatrix / normalize(pseudocount float | dict | None) / "
    "log_odds(background dict incl. zero entries, base in {2, 10, e, 3.7}) / ScoringMatrix(values, background) compared cell by cell with float64 definitions; "
    "(calculate) per-position scores, len, max / argmax / threshold under each forced backend, incl. one StripedSequence reused with motifs of widths in increasing, decreasing and random order; "
    "(scan) hits vs the model set for several thresholds and block sizes; (pvalue) pvalue / score with method meme and tfmpvalue against the exact enumerated tail, "
    "also on a reverse complement taken after the forward matrix cached its distribution under a strand-asymmetric background; (rc) reverse_complement cells; "
    "(load) generated files of the four formats through a path, io.BytesIO and a file-like object returning short reads; (errors) alphabet mismatch, bad keys, ragged columns, "
    "invalid background, unknown format / method must raise ordinary exceptions, never PanicException. Non-trivial = scenario with a motif of width >= 2; distinct = distinct scenario inputs."
)
REQUIRED = [
    "family.build", "family.calculate", "route.encoded_sequence", "route.striped_copy", "route.copy_of_scored_sequence", "calculate.L=M", "family.scan", "family.pvalue", "family.rc", "family.load", "family.errors",
    "backend.generic", "backend.sse2", "backend.avx2", "backend.auto", "alphabet.protein", "reuse.increasing",
    "reuse.decreasing", "pseudocount.dict", "pseudocount.dict_with_wildcard_key", "background.wildcard_key", "background.nonuniform", "background.zero_entries", "base.non2",
    "pvalue.meme", "pvalue.tfmpvalue", "pvalue.rc_after_cached_distribution", "pvalue.wildcard_weighted_background", "load.path", "load.bytesio",
    "load.short_reads", "errors.invalid_symbol_in_long_text", "scan.lone_hit_in_last_row_of_odd_block", "scan.several_default_blocks", "score.tabulated_pvalue", "pvalue.far_below_minimum", "load.jaspar", "load.jaspar16", "load.transfac", "load.uniprobe", "scan.hits>0",
]

lightmotif = None
helper = None
BACKENDS = ["generic", "sse2", "avx2", None]


def rows_of(obj):
    return [list(obj[i]) for i in range(len(obj))]


class Panic(Exception):
    pass


def call(rep, case, what, f, witness=None):
    """run a library call; a PanicException (BaseException) is a violation"""
    try:
        return True, f()
    except Exception as e:  # ordinary exception
        return False, e
    except BaseException as e:  # PanicException derives from BaseException
        if type(e).__name__ in ("KeyboardInterrupt", "SystemExit"):
            raise
        rep.violate("c17.panic:%s" % what, case, "%s raised %s: %s" % (what, type(e).__name__, e), witness)
        raise Panic()


def compare_rows(rep, case, what, got, expect, wit, rel=2e-5):
    if len(got) != len(expect):
        rep.violate("c17.%s.shape" % what, case, "%s: %d rows, expected %d" % (what, len(got), len(expect)), wit)
        return False
    for i, (g, e) in enumerate(zip(got, expect)):
        if len(g) != len(e):
            rep.violate("c17.%s.shape" % what, case, "%s: row %d has %d columns, expected %d" % (what, i, len(g), len(e)), wit)
            return False
        for j, (x, y) in enumerate(zip(g, e)):
            if not close(float(x), float(y), rel=rel):
                rep.violate("c17.%s.cell" % what, case, "%s[%d][%d] = %r, definition gives %r" % (what, i, j, x, y), wit)
                return False
    return True


def gen_motif_sequences(rng, alphabet, w, n=None):
    n = n or rng.randint(2, 30)
    return [rand_seq(rng, alphabet, w, wild=0.0) for _ in range(n)]


# ----------------------------------------------------------------------------------------------


def family_build(rep, case, rng):
    rep.cover("family.build")
    protein = rng.random() < 0.3
    alphabet = PROTEIN if protein else DNA
    k = len(alphabet)
    if protein:
        rep.cover("alphabet.protein")
    w = rng.randint(1, 20)
    seqs = gen_motif_sequences(rng, alphabet, w)
    wit = dict(protein=protein, width=w, sequences=seqs[:6])
    ok, motif = call(rep, case, "create", lambda: lightmotif.create(seqs, protein=protein, name="m%d" % case), wit)
    if not ok:
        rep.violate("c17.create.error", case, "create() raised %r on valid sequences" % (motif,), wit)
        return
    counts = R.counts_from_sequences(seqs, alphabet)
    ubg = R.uniform_bg(alphabet)
    if motif.name != "m%d" % case or motif.protein != protein:
        rep.violate("c17.create.meta", case, "name/protein of the created motif: %r %r" % (motif.name, motif.protein), wit)
    if not compare_rows(rep, case, "create.counts", rows_of(motif.counts), counts, wit):
        return
    w0 = R.weights(counts, [0.0] * k, ubg)
    if not compare_rows(rep, case, "create.pwm", rows_of(motif.pwm), w0, wit):
        return
    if not compare_rows(rep, case, "create.pssm", rows_of(motif.pssm), R.log_odds(w0, 2.0), wit):
        return
    # CountMatrix constructor from a dict of columns
    values = {alphabet[j]: [r[j] for r in counts] for j in range(k - 1)}
    ok, cm = call(rep, case, "CountMatrix", lambda: lightmotif.CountMatrix(values, protein=protein), wit)
    if not ok:
        rep.violate("c17.countmatrix.error", case, "CountMatrix(dict) raised %r" % (cm,), wit)
        return
    if not compare_rows(rep, case, "countmatrix", rows_of(cm), counts, wit) or not (cm == motif.counts):
        if cm != motif.counts:
            rep.violate("c17.countmatrix.eq", case, "CountMatrix built from the same counts compares unequal", wit)
        return
    # normalize with the three kinds of pseudocount
    mode = rng.randrange(3)
    if mode == 0:
        p = rng.choice([0.1, 0.25, 1.0, 2.5])
        pseudo = [p] * (k - 1) + [0.0]
        arg = p
    elif mode == 1:
        arg = None
        pseudo = [0.0] * k
    else:
        rep.cover("pseudocount.dict")
        keys = rng.sample(list(alphabet[: k - 1]), rng.randint(1, k - 1))
        d = {ch: rng.choice([0.0, 0.5, 1.0, 3.25]) for ch in keys}
        if rng.random() < 0.4:
            d[alphabet[k - 1]] = rng.choice([0.0, 0.5, 2.0])  # the wildcard symbol is a legal key
            rep.cover("pseudocount.dict_with_wildcard_key")
        pseudo = [d.get(ch, 0.0) for ch in alphabet]
        arg = d
    wit = dict(wit, pseudocount=arg)
    if all(sum(c + p for c, p in zip(r, pseudo)) > 0 for r in counts):
        ok, pwm = call(rep, case, "normalize", lambda: cm.normalize(arg), wit)
        if not ok:
            rep.violate("c17.normalize.error", case, "normalize(%r) raised %r" % (arg, pwm), wit)
            return
        wref = R.weights(counts, pseudo, ubg)
        if not compare_rows(rep, case, "normalize", rows_of(pwm), wref, wit):
            return
        # log_odds with background and base
        base = rng.choice([2.0, 2.0, 10.0, math.e, 3.7])
        if base != 2.0:
            rep.cover("base.non2")
        bmode = rng.randrange(3)
        if bmode == 0:
            bgd, bg = None, ubg
        else:
            zero = bmode == 2
            bgd = dyadic_background(rng, alphabet, zero_entries=zero)
            if rng.random() < 0.3:
                # move part of one frequency to the wildcard symbol (still sums to exactly one)
                donor = max(bgd, key=lambda c: bgd[c])
                if bgd[donor] > 2 / 256.0:
                    bgd[donor] -= 1 / 256.0
                    bgd[alphabet[k - 1]] = 1 / 256.0
                    rep.cover("background.wildcard_key")
            bg = [bgd.get(ch, 0.0) for ch in alphabet]
            rep.cover("background.nonuniform")
            if zero:
                rep.cover("background.zero_entries")
        wit = dict(wit, background=bgd, base=base)
        ok, pssm = call(rep, case, "log_odds", lambda: pwm.log_odds(bgd, base), wit)
        if not ok:
            rep.violate("c17.log_odds.error", case, "log_odds(%r, %r) raised %r" % (bgd, base, pssm), wit)
            return
        sref = R.log_odds(R.rescale(wref, ubg, bg), base)
        if not compare_rows(rep, case, "log_odds", rows_of(pssm), sref, wit, rel=5e-5):
            return
        # max_score
        ok, mx = call(rep, case, "max_score", lambda: pssm.max_score(), wit)
        mref = sum(max(r[: k - 1]) for r in sref)
        if ok and not close(mx, mref, rel=1e-4):
            rep.violate("c17.max_score", case, "max_score() = %r, definition gives %r" % (mx, mref), wit)
    if w >= 2:
        rep.nontrivial("build", tuple(seqs), repr(arg))
    rep.sample(dict(case=case, family="build", **{k_: (v if not isinstance(v, list) else v[:3]) for k_, v in wit.items()}))


def make_pssm(rng, w, protein=False, bgd=None, kind=None):
    """a ScoringMatrix built through the Python constructor from explicit values"""
    alphabet = PROTEIN if protein else DNA
    k = len(alphabet)
    kind = kind or rng.choice(["logodds", "finite", "smallint"])
    if kind == "logodds":
        seqs = gen_motif_sequences(rng, alphabet, w)
        motif = lightmotif.create(seqs, protein=protein)
        pssm = motif.counts.normalize(rng.choice([0.1, 0.5, 1.0])).log_odds(bgd)
        return pssm, rows_of(pssm)
    rows = []
    for _ in range(w):
        if kind == "finite":
            rows.append([R.f32(rng.uniform(-8, 8)) for _ in range(k - 1)])
        else:
            rows.append([float(rng.randint(-6, 6)) for _ in range(k - 1)])
    values = {alphabet[j]: [r[j] for r in rows] for j in range(k - 1)}
    pssm = lightmotif.ScoringMatrix(values, bgd, protein=protein)
    return pssm, [r + [0.0] for r in rows]


def family_calculate(rep, case, rng):
    rep.cover("family.calculate")
    protein = rng.random() < 0.25
    alphabet = PROTEIN if protein else DNA
    if protein:
        rep.cover("alphabet.protein")
    length = rng.choice([0, 1, 5, 31, 32, 33, 64, 65, 100, 129, 289, 302, 1023, 1024, 1025, 1031, 1056]) if rng.random() < 0.5 else rng.randint(0, 1500)
    text = rand_seq(rng, alphabet, length, wild=0.03)
    idx = [alphabet.index(c) for c in text]
    ok, striped = call(rep, case, "stripe", lambda: lightmotif.stripe(text, protein=protein))
    if not ok:
        rep.violate("c17.stripe.error", case, "stripe raised %r on a valid sequence" % (striped,), dict(length=length))
        return
    # the other ways to the same striped sequence: EncodedSequence(text).stripe(), copies; the
    # encoded sequence displays as the text it was built from (C05 through Python)
    route = rng.randrange(4)
    if route:
        rep.cover("route.encoded_sequence")
        ok, enc = call(rep, case, "EncodedSequence", lambda: lightmotif.EncodedSequence(text, protein=protein))
        if not ok:
            rep.violate("c17.encode.error", case, "EncodedSequence raised %r on a valid sequence" % (enc,), dict(length=length))
            return
        if str(enc) != text or len(enc) != length or enc.protein != protein:
            rep.violate("c17.encode.display", case, "str(EncodedSequence(text)) / len / protein differ from the input: %r" % (str(enc)[:60],), dict(length=length, sequence=text[:80]))
            return
        if length and [enc[i] for i in (0, length // 2, length - 1)] != [idx[0], idx[length // 2], idx[length - 1]]:
            rep.violate("c17.encode.symbols", case, "EncodedSequence indices differ from the alphabet ranks of the characters", dict(length=length, sequence=text[:80]))
            return
        if route == 2:
            enc = enc.copy()
        elif route == 3:
            import copy as _copy
            enc = _copy.copy(enc)
        if str(enc) != text:
            rep.violate("c17.encode.copy", case, "a copy of an EncodedSequence displays differently", dict(length=length))
            return
        ok, striped = call(rep, case, "EncodedSequence.stripe", lambda: enc.stripe())
        if not ok:
            rep.violate("c17.stripe.error", case, "EncodedSequence.stripe raised %r" % (striped,), dict(length=length))
            return
        if rng.random() < 0.5:
            striped = striped.copy()
            rep.cover("route.striped_copy")
    order = rng.choice(["increasing", "decreasing", "random"])
    widths = sorted(rng.sample(range(1, 45), rng.randint(2, 5)))
    if order == "decreasing":
        widths.reverse()
        rep.cover("reuse.decreasing")
    elif order == "increasing":
        rep.cover("reuse.increasing")
    else:
        rng.shuffle(widths)
    if 1 <= length <= 60 and rng.random() < 0.5:
        widths.append(length)  # the motif exactly as long as the sequence: exactly one position
        rep.cover("calculate.L=M")
    for wi, w in enumerate(widths):
        pssm, rows = make_pssm(rng, w, protein)
        backend = rng.choice(BACKENDS)
        if wi > 0 and rng.random() < 0.3:
            # continue on a copy of the sequence that was already used for scoring
            import copy as _copy
            striped = striped.copy() if rng.random() < 0.5 else _copy.copy(striped)
            rep.cover("route.copy_of_scored_sequence")
        rep.cover("backend.%s" % (backend or "auto"))
        rep.eval()
        wit = dict(protein=protein, length=length, width=w, widths_order=widths, backend=backend, sequence=text[:80])
        helper.force_backend(backend)
        try:
            ok, sc = call(rep, case, "calculate", lambda: pssm.calculate(striped), wit)
            if not ok:
                rep.violate("c17.calculate.error", case, "calculate raised %r" % (sc,), wit)
                return
            exact = R.scores(rows, idx) if length >= w else []
            n = len(exact)
            if len(sc) != n:
                rep.violate("c17.calculate.len", case, "len(scores) = %d, expected L-M+1 = %d" % (len(sc), n), wit)
                return
            okg, got = call(rep, case, "scores[i]", lambda: [sc[i] for i in range(n)], wit)
            if not okg:
                rep.violate("c17.calculate.index", case, "reading scores[0..%d) raised %r" % (n, got), wit)
                return
            for i in range(n):
                ex, ab = exact[i]
                g = got[i]
                good = (g == ex) if ex == R.NEG_INF else abs(g - ex) <= R.tol(w, ab)
                if not good:
                    rep.violate("c17.calculate.value", case, "scores[%d] = %r, definition gives %r" % (i, g, ex), wit)
                    return
            # max / argmax / threshold over the valid positions; cells past the last valid position
            # hold -inf only when the wildcard column is -inf, so restrict to what the statement defines
            ok, mx = call(rep, case, "max", lambda: sc.max(), wit)
            ok2, am = call(rep, case, "argmax", lambda: sc.argmax(), wit)
            wild_neg_inf = all(r[-1] == R.NEG_INF for r in rows)
            if n == 0:
                if mx is not None or am is not None:
                    rep.violate("c17.max.empty", case, "empty scores give max=%r argmax=%r" % (mx, am), wit)
            elif wild_neg_inf and any(e[0] > R.NEG_INF for e in exact):
                best = max(got)
                if mx != best:
                    rep.violate("c17.max", case, "max() = %r, best valid score %r" % (mx, best), wit)
                if am is None or not (0 <= am < n) or got[am] != best:
                    rep.violate("c17.argmax", case, "argmax() = %r does not hold the best valid score %r" % (am, best), wit)
                t = rng.choice(sorted(set(x for x in got if x > R.NEG_INF)))
                ok3, th = call(rep, case, "threshold", lambda: sc.threshold(t), wit)
                expect = sorted(i for i in range(n) if got[i] >= t)
                if sorted(th) != expect:
                    rep.violate("c17.threshold", case, "threshold(%r) returns %d positions, %d expected" % (t, len(th), len(expect)), wit)
        finally:
            helper.force_backend(None)
        if w >= 2 and length >= w:
            rep.nontrivial("calc", text, w, backend, order)
    # alphabet mismatch must raise ValueError
    other, _ = make_pssm(rng, 3, not protein)
    ok, err = call(rep, case, "calculate(mismatch)", lambda: other.calculate(striped))
    if ok or not isinstance(err, ValueError):
        rep.violate("c17.errors.alphabet_mismatch", case, "calculate with mismatched alphabets gave %r" % (err,), dict(protein=protein))
    rep.sample(dict(case=case, family="calculate", protein=protein, length=length, widths=widths, order=order))


def family_scan(rep, case, rng):
    rep.cover("family.scan")
    length = rng.choice([0, 3, 64, 1000, 1024, 1055]) if rng.random() < 0.3 else rng.randint(0, 3000)
    if rng.random() < 0.08:
        length = rng.randint(8200, 12000)  # several blocks at the default block size
        rep.cover("scan.several_default_blocks")
    text = rand_seq(rng, DNA, length, wild=0.02)
    idx = [DNA.index(c) for c in text]
    w = rng.choice([1, 2, 4, 8, 15, 16, 17, 33])
    pssm, rows = make_pssm(rng, w, False, kind=rng.choice(["logodds", "logodds", "smallint"]))
    striped = lightmotif.stripe(text)
    exact = R.scores(rows, idx) if length >= w else []
    finite = [e[0] for e in exact if e[0] > R.NEG_INF]
    for _ in range(3):
        rep.eval()
        t = R.f32(rng.choice([0.0, -1e30, -5.0, 3.0] + ([rng.choice(finite), max(finite) + 1.0] if finite else [])))
        b = rng.choice([1, 2, 3, 16, 31, 32, 33, 256, 1000000])
        backend = rng.choice(BACKENDS)
        rep.cover("backend.%s" % (backend or "auto"))
        wit = dict(length=length, width=w, threshold=t, block_size=b, backend=backend, sequence=text[:80])
        helper.force_backend(backend)
        try:
            ok, hits = call(rep, case, "scan", lambda: [(h.position, h.score) for h in lightmotif.scan(pssm, striped, threshold=t, block_size=b)], wit)
        except Panic:
            # a dev-profile build turns the wrapping add of the generic byte kernel into a panic:
            # same root cause as the known finding of C08 when it happens on the generic / sse2 arms
            last = rep.violations[-1] if rep.violations else None
            if last and backend in ("generic", "sse2") and "attempt to add with overflow" in last["message"]:
                rep.kinds[last["kind"]] -= 1
                rep.violations.pop()
                rep.kinds = {k_: v for k_, v in rep.kinds.items() if v > 0}
                rep.violate("c17.generic_u8_wraps", case, "scan on the %s arm: %s" % (backend, last["message"]), wit)
            raise
        finally:
            helper.force_backend(None)
        if not ok:
            rep.violate("c17.scan.error", case, "scan raised %r" % (hits,), wit)
            return
        exact_sums = all(float(x).is_integer() for r in rows for x in r if x > R.NEG_INF)
        tl = lambda i: 0.0 if exact_sums else R.tol(w, exact[i][1])
        must = set(i for i in range(len(exact)) if exact[i][0] >= t + tl(i))
        may = set(i for i in range(len(exact)) if exact[i][0] >= t - tl(i))
        # the generic / sse2 byte kernel wraps above 255 (known finding of C02/C08): only the arms
        # with the saturating kernel are judged for completeness here
        got = [p for p, _ in hits]
        if len(set(got)) != len(got):
            rep.violate("c17.scan.duplicate", case, "a position is yielded twice", wit)
            return
        bad = [p for p in got if p not in may]
        if bad:
            rep.violate("c17.scan.extra", case, "position %r yielded but its score is below the threshold or it is not a valid position" % (bad[0],), wit)
            return
        if backend in ("avx2", None):
            missing = sorted(must - set(got))
            if missing:
                rep.violate("c17.scan.missing", case, "position %d scores %r >= %r but was not yielded" % (missing[0], exact[missing[0]][0], t), wit)
                return
        for p, s in hits:
            ex = exact[p][0]
            if not ((s == ex) if ex == R.NEG_INF else abs(s - ex) <= max(tl(p), 1e-30) or s == ex):
                rep.violate("c17.scan.score", case, "hit at %d carries score %r, definition gives %r" % (p, s, ex), wit)
                return
        if must:
            rep.cover("scan.hits>0")
            rep.nontrivial("scan", text, w, t, b, backend)
    # targeted: a hit that is alone in the LAST row of a block with an odd number of rows (the block
    # maximum decides whether the block is looked at in detail)
    nrows = (length + 31) // 32
    if exact and nrows >= 3:
        nvalid = len(exact)
        row_best = [R.NEG_INF] * nrows
        row_arg = [None] * nrows
        for i in range(nvalid):
            r_ = i % nrows
            if exact[i][0] > row_best[r_]:
                row_best[r_], row_arg[r_] = exact[i][0], i
        found = None
        sizes = [3, 5, 7, 9, 33, 255, 257]
        rng.shuffle(sizes)
        for b in sizes:
            for start in range(0, nrows, b):
                end = min(start + b, nrows)
                if (end - start) % 2 == 1 and end - start >= 3 and row_arg[end - 1] is not None:
                    others = max(row_best[start:end - 1])
                    if row_best[end - 1] > others + 0.5 and row_best[end - 1] > R.NEG_INF:
                        found = (b, row_arg[end - 1], (row_best[end - 1] + max(others, row_best[end - 1] - 1.0)) / 2.0)
                        break
            if found:
                break
        if found:
            b, pos, t = found
            t = R.f32(t)
            rep.eval()
            rep.cover("scan.lone_hit_in_last_row_of_odd_block")
            wit = dict(length=length, width=w, threshold=t, block_size=b, backend=None, sequence=text[:80], target=pos)
            ok, hits = call(rep, case, "scan", lambda: [h.position for h in lightmotif.scan(pssm, striped, threshold=t, block_size=b)], wit)
            if not ok:
                rep.violate("c17.scan.error", case, "scan raised %r" % (hits,), wit)
                return
            if exact[pos][0] >= t + R.tol(w, exact[pos][1]) and pos not in hits:
                rep.violate("c17.scan.missing", case, "position %d (alone in the last row of an odd block of size %d) scores %r >= %r but was not yielded" % (pos, b, exact[pos][0], t), wit)
                return
    # protein scanner is not supported: ordinary exception
    ok, err = call(rep, case, "scan(protein)", lambda: lightmotif.scan(make_pssm(rng, 3, True)[0], lightmotif.stripe("ACDE", protein=True)))
    if ok or not isinstance(err, ValueError):
        rep.violate("c17.errors.protein_scan", case, "protein scan gave %r" % (err,))


def family_pvalue(rep, case, rng):
    rep.cover("family.pvalue")
    w = rng.randint(2, 6)
    asym = rng.random() < 0.6
    if asym:
        bgd = None
        while bgd is None or (bgd["A"] == bgd["T"] and bgd["C"] == bgd["G"]):
            bgd = dyadic_background(rng, DNA)
    else:
        bgd = None
    if bgd and rng.random() < 0.35:
        # part of one frequency goes to the wildcard (as backgrounds counted on data with N have):
        # words containing N score -inf under the library's own log-odds, the rest keeps its tail
        donor = max(bgd, key=lambda c: bgd[c])
        if bgd[donor] > 9 / 256.0:
            amount = rng.choice([1, 4, 8]) / 256.0
            bgd[donor] -= amount
            bgd["N"] = amount
            rep.cover("pvalue.wildcard_weighted_background")
    bg = [bgd.get(ch, 0.0) for ch in DNA] if bgd else R.uniform_bg(DNA)
    seqs = gen_motif_sequences(rng, DNA, w)
    pssm = lightmotif.create(seqs).counts.normalize(rng.choice([0.25, 1.0])).log_odds(bgd)
    rows = rows_of(pssm)
    wit = dict(width=w, background=bgd, sequences=seqs[:5])

    def check(p_obj, p_rows, label):
        ex = R.ExactDist(p_rows, bg)
        step = R.meme_step(p_rows)
        d = (w / 2.0 + 1.0) * step
        for _ in range(6):
            rep.eval()
            s = R.f32(rng.choice([ex.scores[0] - 0.5, ex.scores[-1] + 0.5, rng.choice(ex.scores), rng.uniform(ex.scores[0], ex.scores[-1])]))
            ok, p = call(rep, case, "pvalue(meme)", lambda: p_obj.pvalue(s), wit)
            rep.cover("pvalue.meme")
            if not ok:
                rep.violate("c17.pvalue.error", case, "%s: pvalue(%r) raised %r" % (label, s, p), wit)
                return False
            lo, hi = ex.sf(s + d), ex.sf(s - d)
            if p < lo - 1e-7 or p > hi + 1e-7:
                rep.violate("c17.pvalue.meme", case, "%s: pvalue(%r) = %r outside the exact tails [%r, %r] (d = %r)" % (label, s, p, lo, hi, d), wit)
                return False
            ok, p2 = call(rep, case, "pvalue(tfmpvalue)", lambda: p_obj.pvalue(s, method="tfmpvalue"), wit)
            rep.cover("pvalue.tfmpvalue")
            if not ok:
                rep.violate("c17.pvalue.error", case, "%s: pvalue(%r, tfmpvalue) raised %r" % (label, s, p2), wit)
                return False
            lo2, hi2 = ex.sf(s + (w + 1) * 0.1), ex.sf(s - (w + 2) * 0.1)
            if p2 < lo2 - 1e-7 or p2 > hi2 + 1e-7:
                rep.violate("c17.pvalue.tfmpvalue", case, "%s: pvalue(%r, 'tfmpvalue') = %r outside [%r, %r]" % (label, s, p2, lo2, hi2), wit)
                return False
        # scores far below everything the table covers (a window containing N scores -inf): the
        # p-value is the total probability of the finite-scoring words
        total = ex.sf(ex.scores[0] - 1.0)
        for s_far in (ex.scores[0] - 100.0, ex.scores[0] - 1.0e4, -1.0e30, float("-inf")):
            ok, p = call(rep, case, "pvalue(far below)", lambda: p_obj.pvalue(s_far), wit)
            rep.cover("pvalue.far_below_minimum")
            if not ok:
                rep.violate("c17.pvalue.error", case, "%s: pvalue(%r) raised %r" % (label, s_far, p), wit)
                return False
            if abs(p - total) > 1e-7:
                rep.violate("c17.pvalue.meme", case, "%s: pvalue(%r) = %r, the probability of scoring at least that is %r" % (label, s_far, p, total), wit)
                return False
        # score(p) for p EQUAL to tabulated tails (attainable p-values such as pvalue(s), which are
        # not representable in single precision under these backgrounds), just above / below them,
        # denormal and almost-one p-values: the binding must answer what the core library answers
        # for the same double-precision p-value on the same cells (reference route that does not
        # go through the bindings, in the monitor's own extension module)
        try:
            sf = list(memoryview(p_obj.score_distribution))
        except Exception:
            sf = None
        if sf:
            tails = sorted(set(x for x in sf if 0.0 < x < 1.0))
            queries = [1e-50, 5e-324, 1.0 - 1e-9, 1.0 - 2.0 ** -40]
            for _ in range(6):
                if tails:
                    t = rng.choice(tails)
                    queries.append(rng.choice([t, t, math.nextafter(t, 0.0), math.nextafter(t, 1.0)]))
            for pv in queries:
                ok, sc = call(rep, case, "score(tabulated p)", lambda: p_obj.score(pv), wit)
                if not ok:
                    rep.violate("c17.score.error", case, "%s: score(%r) raised %r" % (label, pv, sc), wit)
                    return False
                core = helper.core_meme_score([[float(x) for x in r] for r in p_rows], [float(x) for x in bg], pv)
                rep.cover("score.tabulated_pvalue")
                if sc != core and not (sc != sc and core != core):
                    rep.violate("c17.score.meme", case, "%s: score(%r) = %r through the bindings, %r from the core library on the same cells and background" % (label, pv, sc, core), wit)
                    return False
        # score(p): converting back must not give a larger p-value
        for _ in range(3):
            pv = 10 ** (-rng.uniform(0.3, 5))
            ok, sc = call(rep, case, "score(meme)", lambda: p_obj.score(pv), wit)
            if ok:
                back = p_obj.pvalue(sc)
                if back > pv * (1 + 1e-9):
                    rep.violate("c17.score.roundtrip", case, "%s: pvalue(score(%r)) = %r > p" % (label, pv, back), wit)
                    return False
                # the threshold is consistent with the exact tail within the resolution
                if ex.sf(sc + d) > pv + 1e-7:
                    rep.violate("c17.score.meme", case, "%s: score(%r) = %r but P(S >= score + d) = %r > p" % (label, pv, sc, ex.sf(sc + d)), wit)
                    return False
            ok, sc2 = call(rep, case, "score(tfmpvalue)", lambda: p_obj.score(pv, method="tfmpvalue"), wit)
            if ok and ex.sf(sc2 + (w + 2) * 0.1) > pv + 1e-7:
                rep.violate("c17.score.tfmpvalue", case, "%s: score(%r, 'tfmpvalue') = %r but P(S >= t + d) = %r > p" % (label, pv, sc2, ex.sf(sc2 + (w + 2) * 0.1)), wit)
                return False
        return True

    if not check(pssm, rows, "forward"):
        return
    # reverse complement taken AFTER the forward matrix computed (and cached) its distribution
    ok, rc = call(rep, case, "reverse_complement", lambda: pssm.reverse_complement(), wit)
    if not ok:
        rep.violate("c17.rc.error", case, "reverse_complement raised %r" % (rc,), wit)
        return
    rep.cover("pvalue.rc_after_cached_distribution")
    check(rc, rows_of(rc), "reverse complement (background %s)" % ("asymmetric" if asym else "uniform"))
    ok, err = call(rep, case, "pvalue(bad method)", lambda: pssm.pvalue(1.0, method="nope"))
    if ok or not isinstance(err, ValueError):
        rep.violate("c17.errors.method", case, "pvalue(method='nope') gave %r" % (err,))
    rep.nontrivial("pvalue", tuple(seqs), repr(bgd))


def family_rc(rep, case, rng):
    rep.cover("family.rc")
    rep.eval()
    w = rng.randint(1, 25)
    pssm, rows = make_pssm(rng, w, False)
    ok, rc = call(rep, case, "reverse_complement", lambda: pssm.reverse_complement())
    if not ok:
        rep.violate("c17.rc.error", case, "reverse_complement raised %r" % (rc,))
        return
    expect = R.reverse_complement(rows_of(pssm), DNA, COMPLEMENT)
    compare_rows(rep, case, "rc", rows_of(rc), expect, dict(width=w), rel=0.0)
    ok, rc2 = call(rep, case, "reverse_complement", lambda: rc.reverse_complement())
    if ok and not (rc2 == pssm):
        rep.violate("c17.rc.involution", case, "rc(rc(pssm)) != pssm", dict(width=w))
    prot, _ = make_pssm(rng, 3, True)
    ok, err = call(rep, case, "reverse_complement(protein)", lambda: prot.reverse_complement())
    if ok:
        rep.violate("c17.errors.rc_protein", case, "reverse complement of a protein matrix returned %r" % (err,))
    if w >= 2:
        rep.nontrivial("rc", repr(rows))


class ShortReads:
    """file-like object handing out at most k bytes per read(n)"""

    def __init__(self, data, k):
        self.b = io.BytesIO(data)
        self.k = k

    def read(self, n=-1):
        if n is None or n < 0:
            return self.b.read()
        return self.b.read(min(n, self.k))


def gen_file(rng, fmt, nrec):
    """canonical text of a motif file + the expected (name, description, accession, id, counts | frequencies)"""
    out, recs = [], []
    blank_sep = fmt != "uniprobe" and rng.random() < 0.3
    for r in range(nrec):
        if blank_sep and r > 0:
            out.append(rng.choice(["\n", "\n\n", " \n"]))  # blank lines between records (JASPAR downloads)
        w = rng.randint(1, 12)
        ident = "M%05d.%d" % (rng.randrange(99999), rng.randint(1, 9))
        desc = rng.choice([None, "RUNX1", "activator protein %d" % r, "Zn finger caf\u00e9"])
        counts = [[rng.randrange(0, rng.choice([5, 100, 100000])) for _ in range(4)] + [0] for _ in range(w)]
        for row in counts:
            if sum(row) == 0:
                row[rng.randrange(4)] = 1
        if fmt == "jaspar":
            out.append(">%s%s\n" % (ident, (" " + desc) if desc else ""))
            for col in (0, 1, 3, 2):  # A C G T
                out.append(" ".join(str(counts[i][col]) for i in range(w)) + "\n")
            recs.append(dict(name=ident, description=desc, counts=counts))
        elif fmt == "jaspar16":
            out.append(">%s%s\n" % (ident, ("\t" + desc) if desc else ""))
            order = [("A", 0), ("C", 1), ("G", 3), ("T", 2)]
            rng.shuffle(order)
            for ch, col in order:
                out.append("%s  [ %s ]\n" % (ch, "  ".join(str(counts[i][col]) for i in range(w))))
            recs.append(dict(name=ident, description=desc, counts=counts))
        elif fmt == "transfac":
            acc = rng.choice([None, "M%05d" % rng.randrange(99999)])
            name = rng.choice([None, "AP-%d" % r])
            if acc:
                out.append("AC  %s\nXX\n" % acc)
            out.append("ID  %s\nXX\n" % ident)
            if name:
                out.append("NA  %s\nXX\n" % name)
            if desc:
                out.append("DE  %s\nXX\n" % desc)
            order = [("A", 0), ("C", 1), ("G", 3), ("T", 2)]
            rng.shuffle(order)
            out.append("P0      " + "      ".join(ch for ch, _ in order) + "\n")
            for i in range(w):
                out.append("%02d      " % (i + 1) + "      ".join(str(counts[i][col]) for _, col in order) + "      N\n")
            out.append("XX\n//\n")
            recs.append(dict(name=name, description=desc, accession=acc, id=ident, counts=counts))
        else:  # uniprobe
            freqs = []
            for i in range(w):
                raw = [0.01 + rng.random() for _ in range(4)]
                tot = sum(raw)
                freqs.append([float("%.6f" % (x / tot)) for x in raw] + [0.0])
            out.append("%s\n" % ident)
            order = [("A", 0), ("C", 1), ("G", 3), ("T", 2)]
            rng.shuffle(order)
            for ch, col in order:
                out.append("%s:\t%s\n" % (ch, "\t".join("%.6f" % freqs[i][col] for i in range(w))))
            out.append("\n")
            recs.append(dict(name=ident, freqs=freqs))
    if blank_sep and rng.random() < 0.5:
        out.append("\n")
    return "".join(out).encode("utf8"), recs


def family_load(rep, case, rng):
    rep.cover("family.load")
    fmt = rng.choice(["jaspar", "jaspar16", "transfac", "uniprobe"])
    rep.cover("load.%s" % fmt)
    nrec = rng.choice([1, 2, 3, 40])
    data, recs = gen_file(rng, fmt, nrec)
    how = rng.choice(["path", "bytesio", "short_reads"])
    rep.cover("load.%s" % how)
    rep.eval()
    wit = dict(format=fmt, records=nrec, delivery=how, file_head=data[:300].decode("utf8", "replace"))
    tmp = None
    try:
        if how == "path":
            fd, tmp = tempfile.mkstemp(suffix="." + fmt)
            os.write(fd, data)
            os.close(fd)
            src = tmp
        elif how == "bytesio":
            src = io.BytesIO(data)
        else:
            src = ShortReads(data, rng.choice([1, 2, 7, 100]))
        ok, motifs = call(rep, case, "load", lambda: list(lightmotif.load(src, format=fmt)), wit)
    finally:
        if tmp:
            os.unlink(tmp)
    if not ok:
        rep.violate("c17.load.error", case, "load(%s) raised %r on a well-formed file" % (fmt, motifs), wit)
        return
    if len(motifs) != len(recs):
        rep.violate("c17.load.count", case, "%d motifs loaded, %d written" % (len(motifs), len(recs)), wit)
        return
    ubg = R.uniform_bg(DNA)
    for n, (m, e) in enumerate(zip(motifs, recs)):
        if m.name != e["name"]:
            rep.violate("c17.load.name", case, "record %d: name %r, written %r" % (n, m.name, e["name"]), wit)
            return
        for field in ("description", "accession", "id"):
            if field in e and getattr(m, field) != e[field]:
                rep.violate("c17.load.%s" % field, case, "record %d: %s %r, written %r" % (n, field, getattr(m, field), e[field]), wit)
                return
        if "counts" in e:
            if not compare_rows(rep, case, "load.counts", rows_of(m.counts), e["counts"], wit, rel=0.0):
                return
            wref = R.weights(e["counts"], [0.0] * 5, ubg)
            if not compare_rows(rep, case, "load.pwm", rows_of(m.pwm), wref, wit):
                return
            if not compare_rows(rep, case, "load.pssm", rows_of(m.pssm), R.log_odds(wref, 2.0), wit):
                return
        else:
            if m.counts is not None:
                rep.violate("c17.load.counts", case, "a UniPROBE motif carries counts", wit)
                return
            wref = [[0.0 if b == 0 else f / b for f, b in zip(r, ubg)] for r in e["freqs"]]
            if not compare_rows(rep, case, "load.pwm", rows_of(m.pwm), wref, wit):
                return
    if nrec >= 2:
        rep.nontrivial("load", data)
    rep.sample(dict(case=case, family="load", **wit))


def family_errors(rep, case, rng):
    rep.cover("family.errors")
    checks = [
        ("create(invalid symbol)", lambda: lightmotif.create(["ACGT", "ACXT"]), ValueError),
        ("create(unequal lengths)", lambda: lightmotif.create(["ACGT", "ACG"]), ValueError),
        ("create(protein letters as DNA)", lambda: lightmotif.create(["PILFFRLK", "KDMLKEYL"]), ValueError),
        ("stripe(invalid symbol)", lambda: lightmotif.stripe("ACGU"), ValueError),
        ("EncodedSequence(lower case)", lambda: lightmotif.EncodedSequence("acgt"), ValueError),
        ("CountMatrix(ragged)", lambda: lightmotif.CountMatrix({"A": [1, 2], "C": [1]}), ValueError),
        ("CountMatrix(no column)", lambda: lightmotif.CountMatrix({}), ValueError),
        ("normalize(bad key)", lambda: lightmotif.create(["ACGT"]).counts.normalize({"Z": 1.0}), ValueError),
        ("normalize(long key)", lambda: lightmotif.create(["ACGT"]).counts.normalize({"AC": 1.0}), ValueError),
        ("normalize(bad type)", lambda: lightmotif.create(["ACGT"]).counts.normalize("x"), TypeError),
        ("log_odds(background not summing to one)", lambda: lightmotif.create(["ACGT"]).pwm.log_odds({"A": 0.5, "C": 0.1}), ValueError),
        ("log_odds(negative background)", lambda: lightmotif.create(["ACGT"]).pwm.log_odds({"A": 1.5, "C": -0.5}), ValueError),
        ("log_odds(bad type)", lambda: lightmotif.create(["ACGT"]).pwm.log_odds([0.25] * 4), TypeError),
        ("ScoringMatrix(ragged)", lambda: lightmotif.ScoringMatrix({"A": [1.0, 2.0], "C": [1.0]}), ValueError),
        ("load(unknown format)", lambda: list(lightmotif.load(io.BytesIO(b""), format="nope")), ValueError),
        ("load(protein jaspar)", lambda: list(lightmotif.load(io.BytesIO(b""), format="jaspar", protein=True)), ValueError),
        ("load(missing file)", lambda: list(lightmotif.load("/nonexistent/file.pfm", format="jaspar16")), OSError),
        ("load(malformed)", lambda: list(lightmotif.load(io.BytesIO(b">x\nA [1 2\n"), format="jaspar16")), ValueError),
        ("load(text mode file)", lambda: list(lightmotif.load(io.StringIO(">x\n"), format="jaspar16")), TypeError),
        ("Scanner(alphabet mismatch)", lambda: lightmotif.scan(lightmotif.create(["ACGT"]).pssm, lightmotif.stripe("ACDE", protein=True)), ValueError),
    ]
    # an invalid symbol anywhere in a long text (every 32-byte block and the tail), both alphabets
    for protein in (False, True):
        alphabet = PROTEIN if protein else DNA
        n = rng.choice([64, 65, 96, 130, 200, 257])
        base = rand_seq(rng, alphabet, n, wild=0.02)
        bad_ch = rng.choice(["J", "O", "U", "x", ".", "\x00"] if protein else ["X", "U", "a", ".", "\x00", "\x7f"])
        for pos in sorted(set([0, 31, 32, 33, 63, 64, n - 33, n - 32, n - 1, rng.randrange(n), rng.randrange(32, n)])):
            if not (0 <= pos < n):
                continue
            text = base[:pos] + bad_ch + base[pos + 1:]
            checks.append(("stripe(invalid %r at %d of %d, protein=%s)" % (bad_ch, pos, n, protein), (lambda t=text, pr=protein: lightmotif.stripe(t, protein=pr)), ValueError))
            checks.append(("EncodedSequence(invalid %r at %d of %d, protein=%s)" % (bad_ch, pos, n, protein), (lambda t=text, pr=protein: lightmotif.EncodedSequence(t, protein=pr)), ValueError))
        rep.cover("errors.invalid_symbol_in_long_text")
    for what, f, exc in checks:
        rep.eval()
        try:
            ok, err = call(rep, case, what, f)
        except Panic:
            continue
        if ok:
            rep.violate("c17.errors.accepted", case, "%s returned %r instead of raising %s" % (what, err, exc.__name__))
        elif not isinstance(err, exc):
            rep.violate("c17.errors.type", case, "%s raised %s (%s), expected %s" % (what, type(err).__name__, err, exc.__name__))
    rep.nontrivial("errors", case)


FAMILIES = [family_build, family_calculate, family_scan, family_pvalue, family_rc, family_load, family_errors, family_load, family_calculate, family_build, family_load, family_load]


def main():
    global lightmotif, helper
    tier, seed, out, only = parse_args(sys.argv)
    rep = Report("C17", tier, seed, RULE, REQUIRED)
    lightmotif, helper = load_module()
    n = 1200 if tier == "quick" else 24000
    cases = [only] if only is not None else range(n)
    for case in cases:
        rng = case_rng(seed, "C17", case)
        fam = FAMILIES[case % len(FAMILIES)] if case >= 1 else family_errors
        try:
            fam(rep, case, rng)
        except Panic:
            pass
        except BaseException as e:
            if type(e).__name__ in ("KeyboardInterrupt", "SystemExit"):
                raise
            if not isinstance(e, Exception):
                # a PanicException (derives from BaseException) that escaped a library call the monitor
                # makes outside its guard: still the library's panic, never a monitor error
                import traceback

                rep.violate("c17.panic:unguarded_call", case, "%s raised by a library call: %s | %s" % (type(e).__name__, e, traceback.format_exc()[-400:].replace("\n", " | ")), None)
                continue  # a failure of the monitor itself
            import traceback

            rep.errors.append("case %d: monitor error %s: %s" % (case, type(e).__name__, traceback.format_exc()[-600:]))
    c = helper.dispatch_counts()
    rep.cover("dispatch_forced.generic", c[0])
    rep.cover("dispatch_forced.sse2", c[1])
    rep.cover("dispatch_forced.avx2", c[2])
    rep.write(out, only)
    print("C17: %d evaluations, %d distinct, kinds %s" % (rep.evaluations, len(rep.digests), rep.kinds), file=sys.stderr)


if __name__ == "__main__":
    main()
