"""Pure-Python (float64) reference definitions used by the C17 / C18 monitors.

Matrices are lists of rows; a row is a list of K values in the alphabet's symbol order
(DNA: A C T G N; protein: ACDEFGHIKLMNPQRSTVWYX), the last symbol being the wildcard.
"""
import math
import struct

NEG_INF = float("-inf")


def f32(x):
    """round to the nearest f32 (the library stores f32)"""
    if x != x or x in (float("inf"), NEG_INF):
        return x
    try:
        return struct.unpack("f", struct.pack("f", x))[0]
    except OverflowError:
        return float("inf") if x > 0 else NEG_INF


def counts_from_sequences(seqs, alphabet):
    w = len(seqs[0])
    rows = [[0] * len(alphabet) for _ in range(w)]
    for s in seqs:
        for i, ch in enumerate(s):
            rows[i][alphabet.index(ch)] += 1
    return rows


def uniform_bg(alphabet):
    k = len(alphabet)
    return [1.0 / (k - 1)] * (k - 1) + [0.0]


def weights(counts, pseudo, bg):
    """(count + pseudocount) / row total / background; zero where the background is zero"""
    out = []
    for r in counts:
        t = [c + p for c, p in zip(r, pseudo)]
        tot = sum(t)
        out.append([0.0 if b == 0 else (x / tot) / b for x, b in zip(t, bg)])
    return out


def rescale(w, old_bg, new_bg):
    return [[0.0 if nb == 0 else x * ob / nb for x, ob, nb in zip(r, old_bg, new_bg)] for r in w]


def log_odds(w, base):
    def lg(x):
        if x == 0:
            return NEG_INF
        return math.log(x) / math.log(base)

    return [[lg(x) for x in r] for r in w]


def scores(pssm, seq_idx):
    """exact score at every valid position: (value, sum of |finite terms|)"""
    m = len(pssm)
    out = []
    for i in range(len(seq_idx) - m + 1):
        s, a, ninf = 0.0, 0.0, False
        for j in range(m):
            t = pssm[j][seq_idx[i + j]]
            if t == NEG_INF:
                ninf = True
            else:
                s += t
                a += abs(t)
        out.append((NEG_INF if ninf else s, a))
    return out


def tol(m, abs_sum):
    return 4.0 * m * 1.1920929e-07 * abs_sum + 1e-30


def reverse_complement(rows, alphabet, complement):
    out = []
    for r in reversed(rows):
        out.append([r[alphabet.index(complement[ch])] for ch in alphabet])
    return out


class ExactDist:
    """exact distribution of the score of a background-distributed word (enumeration of all words)"""

    def __init__(self, rows, bg):
        acc = {0.0: 1.0}
        for r in rows:
            nxt = {}
            for s, p in acc.items():
                for x, b in zip(r, bg):
                    if b > 0:
                        k = s + x
                        nxt[k] = nxt.get(k, 0.0) + p * b
            acc = nxt
        # words scoring -inf are never >= a finite score: no tail mass, not an attainable score
        acc.pop(NEG_INF, None)
        self.scores = sorted(acc)
        self.tail = []
        t = 0.0
        for s in reversed(self.scores):
            t += acc[s]
            self.tail.append(t)
        self.tail.reverse()

    def sf(self, x):
        import bisect

        i = bisect.bisect_left(self.scores, x)
        return 0.0 if i >= len(self.scores) else self.tail[i]


def meme_step(rows):
    """discretisation step of the MEME-style distribution of a matrix (see C11)"""
    finite = [x for r in rows for x in r if x not in (NEG_INF, float("inf"))]
    small, large = min(finite), max(finite)
    if small == large:
        small = large - 1.0
    offset = math.floor(small)
    scale = math.floor(1000.0 / (large - offset))
    return 1.0 / scale
