#!/bin/bash
# usage: confirm_mutant.sh <worktree> <mutant dir>   e.g. /tmp/mut/C05 /tmp/mut/C05/OUT/m1
# Confirms: patch applies, builds, the 84 baseline tests still pass, demo fails with the patch and passes without.
set -u
wt="$1"; md="$2"
export CARGO_NET_OFFLINE=true PYO3_PYTHON=/usr/bin/python3
cd "$wt" || exit 9
git checkout -q -- . ; git clean -fdq -e OUT
demo=$(ls "$md" | grep -E '^demo.*\.rs$' | head -1)
crate=lightmotif
grep -q "lightmotif-io\|lightmotif_io" "$md/patch.diff" "$md/$demo" 2>/dev/null && crate=lightmotif-io
grep -q "lightmotif-tfmpvalue/" "$md/patch.diff" && crate=lightmotif-tfmpvalue
feat=""
grep -q "verif_force_backend" "$md/$demo" && [ $crate = lightmotif ] && feat="--features verif-hooks"
name="${demo%.rs}"
cp "$md/$demo" "$crate/tests/$demo"
# without patch
cargo test -p $crate --offline $feat --test "$name" > /tmp/confirm_$$.a 2>&1; a=$?
git apply "$md/patch.diff" || { echo "APPLY-FAIL $md"; exit 9; }
cargo test -p $crate --offline $feat --test "$name" > /tmp/confirm_$$.b 2>&1; b=$?
rm -f "$crate/tests/$demo"
cargo test -p lightmotif -p lightmotif-io -p lightmotif-tfmpvalue --offline --no-fail-fast > /tmp/confirm_$$.c 2>&1
passed=$(grep -E "^test result" /tmp/confirm_$$.c | sed -E 's/.* ([0-9]+) passed.*/\1/' | paste -sd+ | bc)
failed=$(grep -E "^test .* FAILED$" /tmp/confirm_$$.c | sort | tr '\n' ' ')
git checkout -q -- . ; git clean -fdq -e OUT
echo "CONFIRM $md: demo_without_patch_exit=$a demo_with_patch_exit=$b suite_passed=$passed failed=[$failed]"
rm -f /tmp/confirm_$$.*
