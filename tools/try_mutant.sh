#!/bin/bash
# usage: try_mutant.sh <patch.diff> <PROP> [tier]   -- apply a seeded change to /repo, run a check, undo it.
set -u
patch="$1"; prop="$2"; tier="${3:-quick}"
cd /repo || exit 9
if [ -n "$(git status --porcelain --untracked-files=no)" ]; then echo "repo not clean"; exit 9; fi
git apply "$patch" || { echo "patch does not apply"; exit 9; }
cd /verif
./check "$prop" --tier "$tier" 2>&1 | grep -v "^\[build" | tail -${LINES_SHOWN:-8}
rc=${PIPESTATUS[0]}
git -C /repo checkout -- .
echo "== $prop on $(basename $(dirname $patch)) of $(basename $(dirname $(dirname $(dirname $patch)))): exit=$rc"
exit $rc
