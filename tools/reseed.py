#!/usr/bin/env python3
"""Re-run the registered checks against every seeded change with the current monitors.

usage: tools/reseed.py <seed> [id-prefix ...]

For each /verif/seeded/<id>/: apply patch.diff to /repo, run the quick tier (or the tier named by `detect_tier` in meta.json) of every check listed
in meta.json (the property's own check and any extra one recorded there) at VERIF_SEED=<seed>, undo
the patch, and record the outcome in meta.json:
  * seed 0 rewrites `checks_run_with_change_applied` and `detected` (the state the table shows);
  * every seed is added to `redetection` = {seed: {check: exit code}}.
Prints one line per change. Never leaves /repo modified (checked before and after each change).
"""
import json, os, re, subprocess, sys

ENV = dict(os.environ, CARGO_NET_OFFLINE="true", PYO3_PYTHON="/usr/bin/python3")


def sh(cmd, cwd=None, env=None, timeout=7200):
    p = subprocess.run(cmd, shell=True, cwd=cwd, env=env or ENV, stdout=subprocess.PIPE, stderr=subprocess.STDOUT, text=True, errors="replace", timeout=timeout)
    return p.returncode, p.stdout


def main():
    seed = int(sys.argv[1])
    prefixes = sys.argv[2:]
    root = "/verif/seeded"
    ids = sorted(d for d in os.listdir(root) if os.path.isdir(os.path.join(root, d)))
    if prefixes:
        ids = [i for i in ids if any(i.startswith(p) for p in prefixes)]
    missed = []
    for sid in ids:
        d = os.path.join(root, sid)
        mp = os.path.join(d, "meta.json")
        meta = json.load(open(mp))
        checks = list(meta.get("checks_run_with_change_applied", {}).keys()) or [meta["property"]]
        if sh("git -C /repo status --porcelain --untracked-files=no")[1].strip():
            print("/repo not clean, stopping")
            return 2
        rc, out = sh("git -C /repo apply %s" % os.path.join(d, "patch.diff"))
        if rc != 0:
            print("%s APPLY-FAIL %s" % (sid, out.strip()[-200:]))
            missed.append(sid)
            continue
        results = {}
        try:
            for c in checks:
                env = dict(ENV, VERIF_SEED=str(seed))
                # a change recorded with "detect_tier": "thorough" is only expected to be caught there
                rc, out = sh("./check %s --tier %s" % (c, meta.get("detect_tier", "quick")), cwd="/verif", env=env)
                viol = re.findall(r"^VIOLATION property=\S+ replay=(\S+)", out, re.M)
                results[c] = dict(exit=rc, violation_lines=len(viol), kinds=[os.path.basename(v).split("-case")[0] for v in viol])
        finally:
            sh("git -C /repo checkout -- .")
        detected = any(v["exit"] == 1 for v in results.values())
        meta.setdefault("redetection", {})[str(seed)] = {c: v["exit"] for c, v in results.items()}
        if seed == 0:
            meta["checks_run_with_change_applied"] = results
            meta["detected"] = detected
        json.dump(meta, open(mp, "w"), indent=1)
        print("%s seed=%d detected=%s %s" % (sid, seed, detected, {c: (v["exit"], v["kinds"][:3]) for c, v in results.items()}), flush=True)
        if not detected:
            missed.append(sid)
    print("ALLDONE seed=%d changes=%d missed=%s" % (seed, len(ids), missed))
    return 0


sys.exit(main())
