#!/usr/bin/env python3
"""Confirm a seeded change produced by a sub-agent and file it under /verif/seeded/<id>/.

usage: seeded_pipeline.py <PROP> <mutant dir> <seeded id> [--checks C01,C06]

Steps (all in the agent's scratch worktree /tmp/mut/<PROP>, moved to /repo's current HEAD first):
  1. the demonstration passes on the unchanged tree and fails with the change applied
  2. the change compiles and the 84 baseline tests still pass (same 4 known failures)
  3. the registered checks are run in /verif against /repo with the change applied, then undone
"""
import json, os, re, shutil, subprocess, sys

ENV = dict(os.environ, CARGO_NET_OFFLINE="true", PYO3_PYTHON="/usr/bin/python3", RUST_BACKTRACE="0")


def sh(cmd, cwd=None, env=None, timeout=3600):
    p = subprocess.run(cmd, shell=True, cwd=cwd, env=env or ENV, stdout=subprocess.PIPE, stderr=subprocess.STDOUT, text=True, errors="replace", timeout=timeout)
    return p.returncode, p.stdout


def main():
    prop, md, sid = sys.argv[1], sys.argv[2].rstrip("/"), sys.argv[3]
    checks = [prop]
    if "--checks" in sys.argv:
        checks = sys.argv[sys.argv.index("--checks") + 1].split(",")
    phase = sys.argv[sys.argv.index("--phase") + 1] if "--phase" in sys.argv else "all"
    wt = os.path.dirname(os.path.dirname(md))  # <root>/<PROP>/OUT/mN -> <root>/<PROP>
    cj = os.path.join(md, "confirm.json")
    if phase == "detect":
        return detect(prop, md, sid, checks, json.load(open(cj)))
    head = sh("git -C /repo rev-parse HEAD")[1].strip()
    sh("git checkout -q -- . ; git clean -fdq -e OUT -e target; git checkout -q --detach %s" % head, cwd=wt)
    patch = os.path.join(md, "patch.diff")
    rc, out = sh("git apply --check %s" % patch, cwd=wt)
    if rc != 0:
        print("PATCH DOES NOT APPLY on HEAD: %s" % out[-300:])
        return 1
    demos = sorted(f for f in os.listdir(md) if f.startswith("demo") and (f.endswith(".rs") or f.endswith(".py")))
    ran = []
    kind = "rust"
    demo = demos[0]
    if demo.endswith(".py"):
        kind = "python"
    notes = open(os.path.join(md, "notes.md")).read() if os.path.exists(os.path.join(md, "notes.md")) else ""
    asan = prop == "C06"

    def run_demo():
        if kind == "python":
            c = "cargo build -p lightmotif-py --offline 2>&1 | tail -1 && cp target/debug/liblightmotif_py.so lightmotif-py/lightmotif/lib.so && PYTHONPATH=lightmotif-py /usr/bin/python3 %s" % os.path.join(md, demo)
            return sh(c, cwd=wt)
        text = open(os.path.join(md, demo)).read()
        crate = "lightmotif"
        if "lightmotif_io" in text or "lightmotif-io" in open(patch).read():
            crate = "lightmotif-io"
        if "lightmotif_tfmpvalue" in text or "lightmotif-tfmpvalue/" in open(patch).read():
            crate = "lightmotif-tfmpvalue"
        feat = "--features verif-hooks" if ("verif_force_backend" in text and crate == "lightmotif") else ""
        os.makedirs(os.path.join(wt, crate, "tests"), exist_ok=True)
        shutil.copy(os.path.join(md, demo), os.path.join(wt, crate, "tests", demo))
        name = demo[:-3]
        if asan:
            c = 'RUSTFLAGS="-Zsanitizer=address -Cforce-frame-pointers=yes" cargo +nightly test -p %s --offline %s --target x86_64-unknown-linux-gnu --test %s -- --test-threads=1' % (crate, feat, name)
        else:
            c = "cargo test -p %s --offline %s --test %s" % (crate, feat, name)
        r = sh(c, cwd=wt)
        os.remove(os.path.join(wt, crate, "tests", demo))
        return r[0], r[1], c

    r0 = run_demo()
    sh("git apply %s" % patch, cwd=wt)
    r1 = run_demo()
    rc_s, out_s = sh("cargo test -p lightmotif -p lightmotif-io -p lightmotif-tfmpvalue --offline --no-fail-fast", cwd=wt)
    passed = sum(int(x) for x in re.findall(r"test result: \w+\. (\d+) passed", out_s))
    failed = sorted(set(re.findall(r"^test (\S+) \.\.\. FAILED", out_s, re.M)))
    sh("git checkout -q -- . ; git clean -fdq -e OUT -e target", cwd=wt)
    demo_ok = (r0[0] == 0 and r1[0] != 0)
    suite_ok = passed >= 94 and failed == ["dispatch::argmax_f32", "dispatch::scanner_max", "generic::argmax_f32", "sse2::argmax_f32"]
    print("%s: demo without change: exit %s; with change: exit %s; suite: %d passed, failed %s" % (sid, r0[0], r1[0], passed, failed))
    conf = dict(head=head, demos=demos, notes=notes, r0=r0[0], r1=r1[0], demo_cmd=(r1[2] if len(r1) > 2 else "python demo (see notes.md)"), passed=passed, failed=failed, confirmed=bool(demo_ok and suite_ok))
    json.dump(conf, open(cj, "w"))
    if not (demo_ok and suite_ok):
        print("%s: NOT CONFIRMED" % sid)
        if not demo_ok:
            print((r0[1][-600:] if r0[0] != 0 else r1[1][-600:]))
        return 1
    if phase == "confirm":
        return 0
    return detect(prop, md, sid, checks, conf)


def detect(prop, md, sid, checks, conf):
    if not conf.get("confirmed"):
        print("%s: not confirmed, skipped" % sid)
        return 1
    patch = os.path.join(md, "patch.diff")
    head, demos, notes = conf["head"], conf["demos"], conf["notes"]
    passed, failed = conf["passed"], conf["failed"]
    r0, r1 = (conf["r0"],), (conf["r1"], "", conf["demo_cmd"])
    # run the checks against /repo with the change applied
    if sh("git -C /repo status --porcelain --untracked-files=no")[1].strip():
        print("/repo not clean")
        return 1
    sh("git -C /repo apply %s" % patch)
    results = {}
    try:
        for c in checks:
            rc, out = sh("./check %s --tier quick" % c, cwd="/verif", timeout=7200)
            kinds = sorted(set(re.findall(r"violation \[[^\]]+\] (\S+?):? ", out)))
            viol = re.findall(r"^VIOLATION property=\S+ replay=(\S+)", out, re.M)
            results[c] = dict(exit=rc, violation_lines=len(viol), kinds=[os.path.basename(v).split("-case")[0] for v in viol])
            if viol and os.environ.get("SEEDED_REPLAY", "1") == "1":
                # the replay file must reproduce the violation on its own
                rrc, rout = sh("./check %s --replay %s" % (c, viol[0]), cwd="/verif", timeout=7200)
                results[c]["replay_exit"] = rrc
            print("check %s: exit %d, %d VIOLATION line(s) %s replay_exit=%s" % (c, rc, len(viol), results[c]["kinds"], results[c].get("replay_exit")))
    finally:
        sh("git -C /repo checkout -- .")
    dst = "/verif/seeded/%s" % sid
    os.makedirs(dst, exist_ok=True)
    shutil.copy(patch, os.path.join(dst, "patch.diff"))
    for d in demos:
        shutil.copy(os.path.join(md, d), os.path.join(dst, d))
    if notes:
        open(os.path.join(dst, "notes.md"), "w").write(notes)
    first_para = ""
    for para in notes.split("\n\n"):
        if len(para.strip()) > 40 and not para.strip().startswith("#"):
            first_para = " ".join(para.split())[:700]
            break
    meta = dict(
        id=sid,
        property=prop,
        origin="fresh sub-agent given only the property text and a scratch worktree of /repo",
        repo_head_when_confirmed=head,
        what_it_changes=first_para,
        needs_to_manifest="see notes.md (trigger conditions written by the author of the change)",
        confirmation=dict(
            demo_command=r1[2] if len(r1) > 2 else "python demo (see notes.md)",
            demo_exit_without_change=r0[0],
            demo_exit_with_change=r1[0],
            baseline_suite_with_change=dict(passed=passed, failed=failed, note="84 stable tests + 10 doctests pass; the 4 failures are the always-failing argmax tests of BASELINE.json"),
        ),
        checks_run_with_change_applied=results,
        detected=any(v["exit"] == 1 for v in results.values()),
    )
    json.dump(meta, open(os.path.join(dst, "meta.json"), "w"), indent=1)
    print("filed under %s (detected=%s)" % (dst, meta["detected"]))
    return 0


sys.exit(main())
