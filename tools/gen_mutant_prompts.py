#!/usr/bin/env python3
"""Write the prompts for one round of seeded-change sub-agents.

usage: tools/gen_mutant_prompts.py <root dir, e.g. /tmp/mut6> <round number> ["extra emphasis text"]

For every property a prompt file <root>/prompt_<ID>.txt is written. A sub-agent gets ONLY the
property text, its own scratch git worktree <root>/<ID> of /repo (create them with
`git -C /repo worktree add --detach <root>/<ID> HEAD`) and the titles of the changes produced in
earlier rounds (so that it does something else). Nothing from /verif is given to it.
"""
import glob, json, os, re, sys

V = os.path.dirname(os.path.dirname(os.path.abspath(__file__)))
root, rnd = sys.argv[1].rstrip("/"), int(sys.argv[2])
emphasis = sys.argv[3] if len(sys.argv) > 3 else (
    "(i) defects that need a *history* (an object reused / reconfigured / resized / cloned several times, an iterator partially "
    "consumed, state cached from an earlier call), (ii) *two cooperating sites* that each look fine alone, (iii) rarely used public "
    "entry points or argument combinations behind this property, (iv) numerical edge cases (ties, -inf, signed zero, saturation, exact "
    "representability) that are legal inputs, (v) a change in code SHARED by several entry points or crates where only one caller is "
    "affected, (vi) a \"performance optimisation\" (early exit, cache, hoisted computation, reuse of a buffer) that is wrong only for a "
    "narrow input class, (vii) a wrong generalisation (code correct for DNA / 32 columns / uniform background that silently mis-handles "
    "protein / other column counts / other backgrounds), (viii) error paths and boundary values of arguments")

os.makedirs(root, exist_ok=True)
for line in open(os.path.join(V, "properties.jsonl")):
    p = json.loads(line)
    P = p["id"]
    wt = "%s/%s" % (root, P)
    titles = []
    for d in sorted(glob.glob(os.path.join(V, "seeded", "%s-r*" % P))):
        m = json.load(open(os.path.join(d, "meta.json")))
        t = m.get("summary") or ""
        files = ", ".join(os.path.basename(f) for f in m.get("files_touched", []))
        if t:
            titles.append("- %s: %s" % (files, re.sub(r"\s+", " ", t)[:260]))
    extra = ""
    if P == "C06":
        extra = (
            "- This property is about memory safety: the demonstration must make a memory checker report. Use AddressSanitizer: "
            "`RUSTFLAGS=\"-Zsanitizer=address -Cforce-frame-pointers=yes\" cargo +nightly test -p lightmotif --offline --target "
            "x86_64-unknown-linux-gnu --test demo_mN -- --test-threads=1` must FAIL with an ASan report (heap-buffer-overflow, "
            "use-after-free, ...) with your change and PASS without it; only in-contract calls of the safe public API may be used in the "
            "demonstration. Note that stores done with streaming intrinsics (`_mm256_stream_*`) are invisible to ASan.\n")
    if P in ("C17", "C18"):
        extra = (
            "- This property is observed through the Python bindings (crate lightmotif-py). Build them with `PYO3_PYTHON=/usr/bin/python3 "
            "cargo build -p lightmotif-py --offline`, then `cp target/debug/liblightmotif_py.so lightmotif-py/lightmotif/lib.so` and run "
            "python scripts with `PYTHONPATH=lightmotif-py /usr/bin/python3 script.py` (`import lightmotif`). The demonstration is a python "
            "script OUT/m<i>/demo_m<i>.py that exits 1 (printing what failed) with the change and 0 without it. The change itself may be in "
            "any crate (the bindings or the Rust crates they call). The Python unit tests (`PYTHONPATH=lightmotif-py /usr/bin/python3 -m "
            "unittest lightmotif.tests -q`) must still pass.\n")
    text = f"""You are helping test a verification framework by producing *seeded defects* for a Rust codebase (althonos/lightmotif: SIMD-accelerated scanning of biological sequences with position weight matrices; crates lightmotif, lightmotif-io, lightmotif-tfmpvalue, lightmotif-py).

Your private scratch git worktree of the repository is at {wt} (a detached worktree; work ONLY inside it; never touch /repo or /verif and do not read anything under /verif). Write your deliverables under {wt}/OUT/.

The property you must break is:

{P} - {p['title']}

Statement: {p['statement']}

Quantified over: {p['quantifier']['text']}


Task: produce TWO different, independent changes (m1 and m2) to the library source code (not to its tests) that each BREAK this property while (a) still compiling, and (b) still passing the existing test suite. Each change should be realistic - the kind of mistake a maintainer could plausibly make in a refactoring, optimisation, feature addition or "small cleanup". IMPORTANT: each change must need something *specific* to manifest - a particular size class, a residue modulo the vector width, a block boundary position, a backend arm, a multi-step sequence of operations on one object, an unusual-but-legal input, a particular interleaving of calls - NOT something any ordinary use would expose at once. This is round {rnd}: earlier rounds already produced the changes listed below, so yours must be DIFFERENT in place and mechanism (look for parts of the code behind this property that the list does not touch yet). Welcome kinds of change: {emphasis}. Avoid trivial sabotage. Keep each patch small.

Already produced in earlier rounds (do not repeat these):
{chr(10).join(titles)}

How to work:
- cd {wt} ; read the relevant source files to find good places.
- Environment: no network. Always build/test offline: `CARGO_NET_OFFLINE=true cargo test -p lightmotif -p lightmotif-io -p lightmotif-tfmpvalue --offline --no-fail-fast` (the Python crate lightmotif-py needs `PYO3_PYTHON=/usr/bin/python3` in the environment if you build it). NOTE: on the unmodified tree exactly 4 tests already fail (lightmotif tests/argmax.rs: generic::argmax_f32, sse2::argmax_f32, dispatch::argmax_f32, dispatch::scanner_max - a data file is empty); every other test passes (84 tests + 10 doctests). With your change applied the same must still pass (the same 4 may fail).
- The host CPU supports AVX2, so `Pipeline::dispatch()` picks the AVX2 arm here; the crate `lightmotif` has an off-by-default cargo feature `verif-hooks` exposing `lightmotif::pli::dispatch::verif_force_backend(Some(Dispatch::Generic|Sse2|Avx2))` (thread-local) that forces the arm returned by `Pipeline::dispatch()`; a demonstration may enable that feature if the defect lives in an arm not selected on this host.
- Known baseline quirks you must steer around (do not build a demonstration on them): the generic 8-bit scoring kernel (lightmotif/src/pli/mod.rs, `score += ...` on u8) overflows for windows whose rounded-up cells sum above 255 (panic in debug builds); TFM-PVALUE ignores the wildcard symbol (finite wildcard cells under a background with non-zero wildcard frequency are outside what it models) and its score refinement can, very rarely, pick a window that does not contain the answer.
{extra}- Do NOT use `git stash` (the stash is shared between worktrees of other agents). To switch between "with change" and "without change" save your change with `git diff > {wt}/OUT/wip.diff`, then `git checkout -- .` and `git apply`.
- For each change i in {{1,2}}: make the change, run the test suite, write a demonstration (a Rust integration test file, e.g. <crate>/tests/demo_mN.rs - create the tests/ directory if the crate has none - or for Python-observed properties a python script) that FAILS with the change and PASSES without it; verify both directions yourself. Then save into {wt}/OUT/m<i>/ : `patch.diff` (output of `git diff` for the library source change ONLY, without the demo file), the demo file(s) (named demo_m<i>...), and `notes.md` whose first line is `# {P} / m<i> - <one-line summary of the change>` and which has the sections `## Change`, `## Part of the property that breaks`, `## What is needed for it to manifest`, `## Commands run and outcome`. After saving, revert the worktree to a clean state (`git checkout -- . && git clean -fdq -e OUT -e target`) before starting the next change.
- Finish with a short report: for each of m1, m2 one paragraph (file touched, trigger condition, demo command). Do not commit anything.
"""
    open(os.path.join(root, "prompt_%s.txt" % P), "w").write(text)
print("prompts written to", root)
