#!/usr/bin/env python3
"""Rewrite section 9 of DESIGN.md (between the markers) from seeded/*/meta.json."""
import glob, json, os, re
V = os.path.dirname(os.path.dirname(os.path.abspath(__file__)))
rows = []
for f in sorted(glob.glob(os.path.join(V, "seeded", "*", "meta.json"))):
    m = json.load(open(f))
    desc = m.get("summary") or m.get("what_it_changes", "")
    desc = re.sub(r"\s+", " ", desc)[:230]
    files = ", ".join(os.path.basename(x) for x in m.get("files_touched", []))
    if files:
        desc = "`%s`: %s" % (files, desc)
    det = []
    for c, r in m["checks_run_with_change_applied"].items():
        if r["exit"] == 1:
            kinds = sorted(set(k.split("-", 1)[1] if "-" in k else k for k in r["kinds"]))
            det.append("%s (%s)" % (c, ", ".join(kinds)[:110]))
        else:
            det.append("%s: exit %s" % (c, r["exit"]))
    if m.get("detect_tier") == "thorough":
        det = ["thorough tier only: " + d for d in det]
    rows.append((m["id"], m["property"], desc, "; ".join(det), m["detected"]))
n = len(rows)
nd = sum(1 for r in rows if r[4])
nth = sum(1 for f in glob.glob(os.path.join(V, "seeded", "*", "meta.json")) if json.load(open(f)).get("detect_tier") == "thorough" and json.load(open(f)).get("detected"))
out = []
out.append("%d seeded changes are kept under `seeded/<id>/` (patch.diff, the author's demonstration, notes.md with the trigger conditions, meta.json with what was run). Each was written by a fresh sub-agent that saw only the property text and a scratch worktree of /repo; each was re-confirmed by `tools/seeded_pipeline.py` on /repo's current HEAD (demonstration passes without the change and fails with it; the 84 baseline tests + 10 doctests still pass, same 4 known failures) and then the property's quick check was run in /verif against /repo with the change applied (and undone straight afterwards). %d of %d are caught by the quick tier%s." % (n, nd - nth, n, "" if not nth else ", %d more by the thorough tier only (marked in the table)" % nth))
out.append("")
out.append("| id | file: what the change is (title of the author's notes.md; trigger conditions are in seeded/<id>/notes.md and meta.json) | caught by (violation kinds) |")
out.append("|---|---|---|")
for i, p, d, det, ok in rows:
    out.append("| %s | %s | %s%s |" % (i, d.replace("|", "/"), "" if ok else "**NOT caught**: ", det.replace("|", "/")))
text = "\n".join(out)
p = os.path.join(V, "DESIGN.md")
s = open(p).read()
if "@@SEEDED_TABLE@@" in s:
    s = s.replace("@@SEEDED_TABLE@@", "<!-- seeded:begin -->\n" + text + "\n<!-- seeded:end -->")
else:
    s = re.sub(r"<!-- seeded:begin -->.*?<!-- seeded:end -->", lambda m_: "<!-- seeded:begin -->\n" + text + "\n<!-- seeded:end -->", s, flags=re.S)
open(p, "w").write(s)
print(n, "seeded,", nd, "detected")
