#!/usr/bin/env python3
"""Fill `summary` and `files_touched` of every /verif/seeded/<id>/meta.json that lacks them
(from the first line of notes.md and from the `diff --git` headers of patch.diff)."""
import json, os, re

root = os.path.join(os.path.dirname(os.path.dirname(os.path.abspath(__file__))), "seeded")
n = 0
for sid in sorted(os.listdir(root)):
    d = os.path.join(root, sid)
    mp = os.path.join(d, "meta.json")
    if not os.path.isfile(mp):
        continue
    meta = json.load(open(mp))
    changed = False
    if not meta.get("summary"):
        notes = os.path.join(d, "notes.md")
        first = open(notes).readline().strip() if os.path.exists(notes) else ""
        first = re.sub(r"^#\s*C\d+\s*/\s*m\d+\s*[-–—:]\s*", "", first)
        meta["summary"] = first or meta.get("what_it_changes", "")[:200]
        changed = True
    if not meta.get("files_touched"):
        meta["files_touched"] = sorted(set(re.findall(r"^diff --git a/(\S+)", open(os.path.join(d, "patch.diff")).read(), re.M)))
        changed = True
    if changed:
        json.dump(meta, open(mp, "w"), indent=1)
        n += 1
print("filled", n)
