#!/bin/bash
# Diagnostic (never a verdict): which source lines of /repo the quick-tier workloads of the Rust
# monitors actually execute.  Builds the harness with -Cinstrument-coverage into .build/cov,
# runs every Rust property at the quick tier, merges the profiles and prints the per-file line
# coverage of the /repo crates together with the list of functions that were never entered.
#
#   tools/coverage.sh [tier] [PROP...]         (default: quick, all Rust properties)
set -u
VERIF=$(cd "$(dirname "$0")/.." && pwd)
TIER=${1:-quick}; shift || true
PROPS=${*:-C01 C02 C03 C04 C05 C06 C07 C08 C09 C10 C11 C12 C13 C14 C15 C16 C19}
BIN_DIR=$(dirname "$(find ~/.rustup/toolchains/nightly-x86_64-unknown-linux-gnu -name llvm-cov | head -1)")
OUT=$VERIF/.build/cov
mkdir -p "$OUT/prof" "$OUT/run"
rm -f "$OUT"/prof/*.profraw
export CARGO_NET_OFFLINE=true
(cd "$VERIF/harness" && LLVM_PROFILE_FILE=$OUT/prof/build-%p.profraw CARGO_TARGET_DIR=$OUT/target RUSTFLAGS="-Cinstrument-coverage" \
    cargo +nightly build --release --offline 2>&1 | tail -2)
BIN=$OUT/target/release/lmverif
for p in $PROPS; do
    LLVM_PROFILE_FILE="$OUT/prof/$p-%p.profraw" "$BIN" "$p" --tier "$TIER" --seed "${VERIF_SEED:-0}" \
        --out "$OUT/run/$p" --threads 16 > "$OUT/run/$p.log" 2>&1
    echo "$p rc=$?"
done
"$BIN_DIR/llvm-profdata" merge -sparse "$OUT"/prof/C*.profraw -o "$OUT/all.profdata"
"$BIN_DIR/llvm-cov" report "$BIN" -instr-profile="$OUT/all.profdata" \
    -ignore-filename-regex='(\.cargo|rustc|/verif/)' 2>/dev/null | cut -c1-200 > "$OUT/report.txt"
"$BIN_DIR/llvm-cov" show "$BIN" -instr-profile="$OUT/all.profdata" \
    -ignore-filename-regex='(\.cargo|rustc|/verif/)' -show-line-counts-or-regions \
    -Xdemangler="$HOME/.cargo/bin/rustfilt" 2>/dev/null > "$OUT/show.txt"
cat "$OUT/report.txt"
