#!/usr/bin/env python3
"""Regenerate MANIFEST.json from the table below (kept in one place so that it stays valid)."""
import json, os, subprocess
V = os.path.dirname(os.path.dirname(os.path.abspath(__file__)))

hook_commits = subprocess.run(["git", "-C", "/repo", "log", "--format=%h %s"], capture_output=True, text=True).stdout.splitlines()
hook_commits = [l.split()[0] for l in hook_commits if l.split(" ", 1)[1].startswith("verif-hooks")]

CHECKS = {
 "C01": dict(tech="reference-model monitor (independent f64 scoring model) over every backend arm, dispatch arms forced through the hook; cross-arm equality oracle",
   text="Runtime monitoring: every backend arm (generic, SSE2, AVX2 direct; dispatcher forced to each x86 arm through the verif hook and unforced; 32 and 16 columns; DNA and protein) scores generated inputs covering all boundary length classes, and an independent f64 model plus a cross-arm equality oracle judge every value, every accessor and every row sub-range. Exploration is the right level: the property quantifies over unbounded inputs and SIMD kernels that only execution can exercise.",
   note="NEON arm not executable on this host; lengths above ~40k and widths above 64 not generated; model in harness/src/model.rs trusted", ref="DESIGN.md section 3 C01"),
 "C02": dict(tech="reference-model monitor over recorded scanner hit traces (exhaustive iteration, bounded) and trace checker over the hooked row log for setter histories, per forced dispatcher arm",
   text="Runtime monitoring: scanners are iterated to exhaustion under each forced dispatcher arm for generated matrices (both wildcard regimes), lengths around L<M / L=M / block-boundary classes, block sizes and thresholds; the yielded multiset is compared with the f64 model set, with float-tie positions as don't-care. Reconfiguration histories (threshold() / block_size() between next() calls, caller-owned score buffer) are judged with an event log of the row ranges handed to the 8-bit kernel (verif-hooks row log): every hit found by a block under the threshold then in effect is yielded exactly once.",
   note="DNA only (the scanner is DNA-only); one open known finding on the Generic/Sse2 arms (u8 wrap); NEON not covered", ref="DESIGN.md section 3 C02"),
 "C03": dict(tech="reference-model monitor of Scanner::max after recorded next() prefixes, near-tie workloads, per forced dispatcher arm",
   text="Runtime monitoring: for generated inputs incl. near-tie workloads (top scores within a few discretisation steps) a fresh scanner consumes k hits and max() is judged against the f64 model of the remaining hit set (None iff empty; otherwise valid, unconsumed, exact score, maximal); histories with threshold() / block_size() called between next() calls and finished by max() are judged with the hooked row log (candidates = buffered hits still meeting the threshold + rows not yet scored).",
   note="as C02", ref="DESIGN.md section 3 C03"),
 "C04": dict(tech="model-based monitor of operation histories on one striped buffer (cell map of the definition checked after every op), all striping arms",
   text="Runtime monitoring: random and boundary-enumerated operation histories (stripe / stripe_into reuse / configure_wrap / configure / clone) through generic (C in 1,2,4,16,32), AVX2, dispatch (forced arms) and to_striped; the complete matrix, look-ahead rows, len, wrap, Index and symbol counts are compared with the definition after every operation.",
   note="NEON not covered; lengths up to 9000", ref="DESIGN.md section 3 C04"),
 "C05": dict(tech="exhaustive single-fault sweep (length class x position x 256 byte values) + multi-fault texts against a table model, every encoder arm",
   text="Runtime monitoring with an exhaustive sub-space: every byte value at every position of every length class 0..70, 95..97, 127..129 through all encoder arms and API variants, judged by a table model (accept iff in alphabet, symbols, round trip, first offender).",
   note="exhaustive only for single faults in the listed length classes; multi-fault texts are sampled; NEON not covered", ref="DESIGN.md section 3 C05"),
 "C06": dict(engine="lmverif+sanitizers", tech="compiler sanitizer + memory checkers observing a sharded in-contract workload: AddressSanitizer (unoptimised build), valgrind memcheck (optimised build), Miri with Tree Borrows (generic arm), dev-profile alignment / overflow assertions, signals",
   text="Sanitizer-based runtime monitoring: an in-contract workload over the whole safe API (every arm, exact-capacity inputs, every length residue where the AVX2 transpose path is taken, cloned / exact-capacity / reallocating buffers, row sub-ranges, scanner, sampler, dense-matrix histories) runs in short shards under AddressSanitizer (opt-level 0 so that dead out-of-bounds loads survive) and valgrind memcheck; thorough adds the dev-profile build (debug_assert alignment checks, rustc misaligned-pointer checks), 32 valgrind shards and Miri with Tree Borrows on the sub-surface it can interpret. Reports are de-duplicated by (kind, first library frame).",
   note="a clean run means no report on the executed operations, not memory safety: red-zone tools miss far / intra-object overflows; Miri cannot execute the _mm_sfence kernels (SIMD score / stripe), NEON not covered; Miri out-of-bounds pointer arithmetic without a dereference is logged as a diagnostic, not a verdict", ref="DESIGN.md section 3 C06"),
 "C07": dict(tech="scalar-fold oracle over synthetic and real score matrices, every max/argmax/threshold arm incl. forced dispatch arms",
   text="Runtime monitoring: score matrices of all row classes (0 .. 65536 rows) and value families (all-negative, planted maxima in every column, duplicates, infinities), in fresh and reused buffers, through every arm; max, argmax, threshold sets and cross-arm agreement judged by a scalar fold; real scorings check the -inf padding cells.",
   note="NaN-free matrices only (as the property states); NEON not covered", ref="DESIGN.md section 3 C07"),
 "C08": dict(tech="inequality oracle u8score >= scale(real score) on every position and arm, matrices built to saturate; DNA, protein and a user-defined 12-symbol alphabet (AVX2 shuffle kernel, K <= 16)",
   text="Runtime monitoring: matrices whose rounded-up cells sum above 255, sequences with planted consensus / anti-consensus / wildcards; every position's byte score on every arm is compared with the matrix's own byte image of the real score and of lower thresholds.",
   note="one open known finding (generic u8 kernel wraps); NEON not covered (reading shows the same wrapping add there)", ref="DESIGN.md section 3 C08"),
 "C09": dict(tech="f64 reference model of the conversion definitions over generated count data / pseudocounts / backgrounds / bases; single-condition invalid inputs for the rejection clauses",
   text="Runtime monitoring: generated count data (sequence sets and raw matrices), scalar / per-symbol pseudocounts, uniform / dyadic / zero-entry / counted backgrounds and four logarithm bases go through every conversion route; an f64 model judges counts, frequencies, weights, scores, route agreement, min/max bracketing of windows and the rejection of inputs that violate exactly one validity condition.",
   note="relative tolerance 1e-5; inputs within float noise of the acceptance boundaries are not generated", ref="DESIGN.md section 3 C09"),
 "C10": dict(tech="algebraic-law monitor (involution, definition, commutation with conversions, mirrored scores against the f64 scoring model)",
   text="Runtime monitoring: for generated DNA matrices of widths 1..40 (incl. wildcard counts, finite wildcard columns, -inf cells) the four matrix types are reverse-complemented and checked cell-exactly for involution and definition, for commutation with the conversions under strand-symmetric backgrounds, and for mirrored scores on reverse-complemented sequences.",
   note="Dna (the only complementable alphabet in the crate) plus a user-defined ACGTN alphabet built on the public traits, both in one process", ref="DESIGN.md section 3 C10"),
 "C11": dict(tech="exact-enumeration oracle (all K^M words, f64 tail) for the p-value bounds; structural monitors for wider matrices",
   text="Runtime monitoring against an exact oracle: for DNA widths <= 8 and protein widths <= 3 the exact score distribution is enumerated and every p-value must lie between the exact tails at s+-d; monotonicity, range and round-trip laws are checked for widths up to 30.",
   note="exact bounds only where K^M is enumerable; zero wildcard background frequency", ref="DESIGN.md section 3 C11"),
 "C12": dict(tech="exact-enumeration oracle over every recorded Iteration of approximate_pvalue (trace checker)",
   text="Runtime monitoring of the refinement trace: every Iteration (range, granularity, converged) of approximate_pvalue down to 1e-8 is checked against the exact enumerated tails; pvalue() must equal the converged lower bound.",
   note="widths 2..6 (thorough 2..8), protein 2..3; probabilities compared up to the f64 noise of non-normalised f32 backgrounds", ref="DESIGN.md section 3 C12"),
 "C13": dict(tech="exact-enumeration oracle over every recorded Iteration of approximate_score (trace checker); known-finding signature evaluated against a frozen copy of the reference algorithm",
   text="Runtime monitoring of the refinement trace: every Iteration of approximate_score is checked on both sides against the exact enumerated tails; score() must equal the converged threshold.",
   note="one open known finding (window limitation inherent to the reference algorithm); same ranges as C12", ref="DESIGN.md section 3 C13"),
 "C14": dict(tech="generator-model monitor: generated files + bundled corpora read under 9 stream schedules (monitor-owned chunking Read with injected Interrupted), compared record by record",
   text="Runtime monitoring under hostile stream schedules: generated files of all four formats (1..600 records, shuffled / partial symbol columns, optional metadata) and the bundled corpora are read through capacity-1 buffers, 1-byte reads, random short reads and injected interrupts; every record is compared with the generator's model / an independent line parser.",
   note="canonical syntax only (no blank lines between JASPAR records, no '>' inside descriptions); TRANSFAC counts < 2^24", ref="DESIGN.md section 3 C14"),
 "C15": dict(tech="fault-injection monitor: every prefix, single-byte edit and multi-byte insertion of valid files, structural damage, special numeric tokens, random bytes; panics caught; termination decided on logical steps (records returned, end-of-input polls, CPU time consumed by the reader call); release build plus a dev-profile build (overflow checks) in both tiers",
   text="Runtime monitoring with systematic fault injection: every prefix and single-byte substitution / deletion / insertion of valid files of each format plus structural damage and random bytes are fed to all four readers under catch_unwind and chunked delivery; panics, runaway record streams, end-of-input livelocks and reader calls that burn >= 8 s of CPU on a few-kilobyte input (worker thread, CPU counter read from /proc) are violations.",
   note="a reader call whose worker thread got no CPU for 10 min is inconclusive, never a violation", ref="DESIGN.md section 3 C15"),
 "C16": dict(tech="online trace checker recomputing the sampler state from the dataset after every step; twin-run determinism check; per forced dispatcher arm",
   text="Runtime monitoring of sampling traces: after construction and after every step the count matrix, background, starts and the iteration's hold-out counts are recomputed from the linear sequences; twin runs must be identical.",
   note="seeds >= 2 in zero-or-one mode and >= 2 sequences (fewer divide by an empty background by construction)", ref="DESIGN.md section 3 C16"),
 "C17": dict(engine="python-monitors", tech="Python-level reference-model monitor (pure-Python float64 definitions + exact enumeration) driving the extension module built from the current tree, backends forced through the hook; score(p) also compared with the core library called directly on the same cells",
   text="Runtime monitoring through CPython: generated scenarios (create / normalize / log_odds with backgrounds and bases / calculate under forced backends incl. reuse of one striped sequence with motifs of many widths / scan / pvalue and score with both methods incl. reverse complements taken after a distribution was cached / load through paths, BytesIO and short-read file objects / error paths) are compared with pure-Python float64 definitions; PanicException is a violation.",
   note="system CPython 3.11; the reference definitions in py/refmodel.py are trusted; scanner completeness is judged on the AVX2 / auto arms only (generic-arm wrap is the open finding of C02/C08)", ref="DESIGN.md section 3 C17"),
 "C18": dict(engine="python-monitors", tech="sequence- and buffer-protocol monitor: every index class, every element read through (shape, strides) on the raw storage, address-based liveness check of previously exported views; second pass on a build whose binding crate has arithmetic-overflow checks; valgrind pass in thorough",
   text="Runtime monitoring through CPython: for every exported class and many sizes, len() and obj[i] over valid, negative, out-of-range and huge indices are compared with the logical model; memoryview format / shape / strides are checked and every element is read through them from the raw storage; views taken before the object is reused for scoring are checked against the object's current storage (address comparison via PyObject_GetBuffer); thorough re-runs under valgrind.",
   note="one open known finding (memoryview left dangling when calculate() reallocates); system CPython 3.11", ref="DESIGN.md section 3 C18"),
 "C19": dict(tech="model-based monitor (Vec<Vec<T>> model) of random operation histories, alignment and stride invariants asserted after every op",
   text="Runtime monitoring: random operation histories on DenseMatrix<T,C> for 6 element types (u8, u32, f32, i64 and two user-defined ones of 4 and 3 bytes) x 7 column counts against a Vec<Vec<T>> model; contents, iteration order, equality semantics, row alignment and stride checked after every operation.",
   note="x86_64 alignment (32 bytes) only; one open known finding (element sizes that do not divide the padded row size: stride() / fill())", ref="DESIGN.md section 3 C19"),
}

def main():
    DEV_PROFILE_TOO = {"C01", "C02", "C03", "C04", "C05", "C07", "C08", "C09", "C10", "C14", "C15", "C16", "C19"}  # = DEBUG_RERUN of ./check
    checks = []
    for pid in sorted(CHECKS):
        c = CHECKS[pid]
        checks.append(dict(
            property_id=pid,
            quick_cmd="./check %s --tier quick" % pid,
            thorough_cmd="./check %s --tier thorough" % pid,
            evidence_file="evidence/%s.json" % pid,
            replay_cmd_template="./check %s --replay {path}" % pid,
            engine=c.get("engine", "lmverif"),
            level_claimed=dict(category="exploration", text=c["text"], design_ref=c["ref"]),
            level_note=c["note"],
            technique=c["tech"] + ("; run on the release build and (1/10 of the cases) on the dev-profile build with overflow checks and debug assertions, in both tiers" if pid in DEV_PROFILE_TOO and "dev-profile build" not in c["tech"] else ""),
        ))
    props = [json.loads(l)["id"] for l in open(os.path.join(V, "properties.jsonl"))]
    na = []
    for pid in props:
        if pid not in CHECKS:
            na.append(dict(property_id=pid, reason="monitor not built yet in this round (in progress; runtime monitoring applies, see DESIGN.md)"))
    m = dict(
        version=1,
        setup_cmd="./check --setup",
        hooks=dict(
            guard="cargo feature `verif-hooks` of crate lightmotif (off by default)",
            enable="the harness crates under /verif depend on /repo/lightmotif by path with features = [\"verif-hooks\"]; `./check` rebuilds them against /repo's working tree on every invocation",
            baseline_off_cmd="cd /repo && cargo test --workspace --no-fail-fast --offline",
            source_commits=hook_commits,
            add_only=True,
        ),
        engines=[
            dict(name="lmverif", path="harness/", serves_properties=sorted(p for p in CHECKS if CHECKS[p].get("engine", "lmverif") == "lmverif"),
                 kind_free_text="Rust monitor binary: workload generators + reference models + online checkers, one sub-command per property; built in release / debug / ASan / Miri variants by ./check"),
            dict(name="lmverif+sanitizers", path="harness/src/memsafe.rs + lib/plans.py", serves_properties=["C06"],
                 kind_free_text="the same binary run in shards under AddressSanitizer, valgrind memcheck, Miri and the dev profile; lib/plans.py parses and de-duplicates the tool reports"),
            dict(name="python-monitors", path="py/ + pyharness/", serves_properties=["C17", "C18"],
                 kind_free_text="pyharness/ builds an extension module containing /repo/lightmotif-py's module plus monitor helpers (backend override, raw buffer info); py/monitor_c17.py and py/monitor_c18.py drive it from the system CPython against py/refmodel.py"),
        ],
        checks=checks,
        notes="Runtime monitoring and sanitizers only. Exit codes of ./check: 0 held, 1 violation (VIOLATION line), 2 inconclusive (INCONCLUSIVE line). Genuine defects repaired in /repo by `fix:` commits and the open ones are listed in known_findings.json.",
        not_applicable=na,
    )
    json.dump(m, open(os.path.join(V, "MANIFEST.json"), "w"), indent=1)

main()
